package lint

import (
	"fmt"
	"go/token"
	"go/types"
	"sort"
	"strings"

	"golang.org/x/tools/go/ssa"

	"rosmarlint/sqlp"
)

// ---------------------------------------------------------------------------
// Engine B: reaching definitions over abstract locations and a small term language.
// Two uses are "the same value" iff their terms are structurally equal.
// ---------------------------------------------------------------------------

// loc is an abstract memory location: a cell (local Alloc or captured FreeVar) or a field
// of an object (an Alloc'ed struct, or the struct a pointer parameter points to).
type loc struct {
	obj   ssa.Value // *ssa.Alloc, *ssa.FreeVar, *ssa.Parameter, or an opaque pointer value
	field int       // -1 for the cell itself
}

type defKind int

const (
	dStore      defKind = iota
	dScan               // filled by a Scan call (weak: the previous value survives when no row is read)
	dClosure            // possibly written by a closure handed to a call (value at the closure's exit)
	dCall               // address passed to a call the engine does not model
	dEntry              // value on entry to the function
	dStructCopy         // field col of a struct value stored over the whole object (*p = T{...} / *p = *q)
	dHelper             // field col of an object handed by pointer to a package helper that writes it (value at the helper's returns)
)

type def struct {
	kind  defKind
	instr ssa.Instruction
	store *ssa.Store
	scan  *scanCall
	col   int
	clos  *ssa.Function       // dClosure
	fv    *ssa.FreeVar        // the closure's free variable for the cell
	call  ssa.CallInstruction // dHelper
	param *ssa.Parameter      // dHelper: the helper's parameter that points to the object
}

type defset []*def

type reachDefs struct {
	fn   *ssa.Function
	at   map[ssa.Instruction]map[loc]defset // state BEFORE each instruction that loads or is a call/return
	exit map[loc]defset                     // union over normal returns
}

// objOf resolves a pointer-valued SSA value to the object it points to, using the current
// reaching definitions for cells that hold pointers.
func (m *Model) objOf(v ssa.Value, state map[loc]defset) ssa.Value {
	v = stripConv(v)
	switch x := v.(type) {
	case *ssa.Alloc, *ssa.Parameter, *ssa.FreeVar:
		return v
	case *ssa.UnOp:
		if x.Op == token.MUL {
			if cellObj, ok := x.X.(*ssa.Alloc); ok {
				ds := state[loc{cellObj, -1}]
				if len(ds) == 1 && ds[0].kind == dStore {
					return m.objOf(ds[0].store.Val, state)
				}
			}
			if fv, ok := x.X.(*ssa.FreeVar); ok {
				ds := state[loc{fv, -1}]
				if len(ds) == 1 && ds[0].kind == dStore {
					return m.objOf(ds[0].store.Val, state)
				}
			}
		}
	case *ssa.Phi:
		// all edges the same object?
		var o ssa.Value
		for _, e := range x.Edges {
			oe := m.objOf(e, state)
			if o == nil {
				o = oe
			} else if o != oe {
				return v
			}
		}
		if o != nil {
			return o
		}
	}
	return v
}

// locOf turns an address value into a location.
func (m *Model) locOf(addr ssa.Value, state map[loc]defset) (loc, bool) {
	addr = stripConv(addr)
	switch x := addr.(type) {
	case *ssa.Alloc:
		return loc{x, -1}, true
	case *ssa.FreeVar:
		return loc{x, -1}, true
	case *ssa.FieldAddr:
		// a field of a struct-valued field (embedded or named): one location per leaf
		if inner, ok := stripConv(x.X).(*ssa.FieldAddr); ok {
			if f := fieldOf(inner); f != nil && sameNamedPkg(f) {
				if _, isStruct := f.Type().Underlying().(*types.Struct); isStruct {
					return loc{m.objOf(inner.X, state), nestIdx(inner.Field, x.Field)}, true
				}
			}
		}
		return loc{m.objOf(x.X, state), x.Field}, true
	}
	return loc{}, false
}

func cloneState(s map[loc]defset) map[loc]defset {
	o := make(map[loc]defset, len(s))
	for k, v := range s {
		o[k] = append(defset(nil), v...)
	}
	return o
}

func mergeDefs(a, b defset) defset {
	out := append(defset(nil), a...)
	for _, d := range b {
		dup := false
		for _, e := range out {
			if e == d {
				dup = true
			}
		}
		if !dup {
			out = append(out, d)
		}
	}
	return out
}

func sameDefs(a, b defset) bool {
	if len(a) != len(b) {
		return false
	}
	for _, d := range a {
		found := false
		for _, e := range b {
			if d == e {
				found = true
			}
		}
		if !found {
			return false
		}
	}
	return true
}

var entryDef = &def{kind: dEntry}

// reaching computes (and caches) the reaching definitions of fn.
func (m *Model) reaching(fn *ssa.Function) *reachDefs {
	if rd, ok := m.rd[fn]; ok {
		return rd
	}
	rd := &reachDefs{fn: fn, at: map[ssa.Instruction]map[loc]defset{}, exit: map[loc]defset{}}
	m.rd[fn] = rd
	n := len(fn.Blocks)
	if n == 0 {
		return rd
	}
	scanByCall := map[ssa.Instruction]*scanCall{}
	for _, sc := range m.scanCalls() {
		if sc.Fn == fn {
			scanByCall[sc.Call] = sc
		}
	}
	// one def object per program point, so that the fixpoint terminates
	storeDefs := map[*ssa.Store]*def{}
	scanDefs := map[string]*def{}
	closDefs := map[string]*def{}
	callDefs := map[string]*def{}
	in := make([]map[loc]defset, n)
	out := make([]map[loc]defset, n)
	in[0] = map[loc]defset{}
	get := func(st map[loc]defset, l loc) defset {
		if ds, ok := st[l]; ok {
			return ds
		}
		return defset{entryDef}
	}
	for iter := 0; iter < 60; iter++ {
		changed := false
		for bi, b := range fn.Blocks {
			var cur map[loc]defset
			if bi == 0 {
				cur = cloneState(in[0])
			} else {
				first := true
				for _, p := range b.Preds {
					po := out[p.Index]
					if po == nil {
						continue
					}
					if first {
						cur = cloneState(po)
						first = false
						continue
					}
					// join: union; a location missing on one side means "entry value" there
					for l, ds := range po {
						if _, ok := cur[l]; ok {
							cur[l] = mergeDefs(cur[l], ds)
						} else {
							cur[l] = mergeDefs(defset{entryDef}, ds)
						}
					}
					for l := range cur {
						if _, ok := po[l]; !ok {
							cur[l] = mergeDefs(cur[l], defset{entryDef})
						}
					}
				}
				if cur == nil {
					continue
				}
			}
			for _, ins := range b.Instrs {
				switch x := ins.(type) {
				case *ssa.UnOp, *ssa.Return:
					rd.at[ins] = cloneState(cur)
				case *ssa.Store:
					rd.at[ins] = cloneState(cur)
					if stT, isStruct := x.Val.Type().Underlying().(*types.Struct); isStruct {
						// whole-object assignment: every field of the target object is redefined
						if _, isFA := stripConv(x.Addr).(*ssa.FieldAddr); !isFA {
							obj := m.objOf(x.Addr, cur)
							for i := 0; i < stT.NumFields(); i++ {
								k := fmt.Sprintf("%p/sc%d", ins, i)
								d := scanDefs[k]
								if d == nil {
									d = &def{kind: dStructCopy, instr: x, store: x, col: i}
									scanDefs[k] = d
								}
								cur[loc{obj, i}] = defset{d}
							}
							continue
						}
					}
					if l, ok := m.locOf(x.Addr, cur); ok {
						d := storeDefs[x]
						if d == nil {
							d = &def{kind: dStore, instr: x, store: x}
							storeDefs[x] = d
						}
						cur[l] = defset{d}
					}
				case ssa.CallInstruction:
					rd.at[ins] = cloneState(cur)
					if sc, ok := scanByCall[ins]; ok && sc.Dests != nil {
						for i, dst := range sc.Dests {
							if l, ok := m.locOf(dst, cur); ok {
								k := fmt.Sprintf("%p/%d", ins, i)
								d := scanDefs[k]
								if d == nil {
									d = &def{kind: dScan, instr: ins, scan: sc, col: i}
									scanDefs[k] = d
								}
								cur[l] = mergeDefs(defset{d}, get(cur, l)) // weak update
							}
						}
						continue
					}
					cc := x.Common()
					// closures handed to the call may write the cells they capture
					for _, arg := range cc.Args {
						mc, ok := arg.(*ssa.MakeClosure)
						if !ok {
							continue
						}
						clos := mc.Fn.(*ssa.Function)
						for i, bnd := range mc.Bindings {
							if i >= len(clos.FreeVars) {
								continue
							}
							if cell, ok := bnd.(*ssa.Alloc); ok && m.closureStores(clos, clos.FreeVars[i]) {
								k := fmt.Sprintf("%p/%p", ins, cell)
								d := closDefs[k]
								if d == nil {
									d = &def{kind: dClosure, instr: ins, clos: clos, fv: clos.FreeVars[i]}
									closDefs[k] = d
								}
								l := loc{cell, -1}
								if m.closureStoreDominatesExit(clos, clos.FreeVars[i]) {
									cur[l] = defset{d}
								} else {
									cur[l] = mergeDefs(defset{d}, get(cur, l))
								}
							}
						}
					}
					// addresses passed to calls the engine does not model
					for ai, arg := range cc.Args {
						a := stripConv(arg)
						if _, isAddr := a.Type().Underlying().(*types.Pointer); !isAddr {
							continue
						}
						switch a.(type) {
						case *ssa.Alloc, *ssa.FieldAddr:
						default:
							continue
						}
						callee := cc.StaticCallee()
						if callee != nil && !cc.IsInvoke() && m.inPkg(callee) && !paramWritten(callee, ai, 0) {
							continue
						}
						if l, ok := m.locOf(a, cur); ok && l.field == -1 {
							if al, ok := l.obj.(*ssa.Alloc); ok {
								if _, isStruct := al.Type().Underlying().(*types.Pointer).Elem().Underlying().(*types.Struct); isStruct {
									// pointer to a struct object (e.g. the event): fields are tracked individually;
									// a package helper that writes some of them defines those (value at its returns)
									if callee != nil && !cc.IsInvoke() && m.inPkg(callee) && ai < len(callee.Params) {
										for _, fi := range m.paramFieldWrites(callee, ai, 0) {
											k := fmt.Sprintf("%p/%d/%d", ins, ai, fi)
											d := callDefs[k]
											if d == nil {
												d = &def{kind: dHelper, instr: ins, call: x, param: callee.Params[ai], col: fi}
												callDefs[k] = d
											}
											cur[loc{al, fi}] = defset{d}
										}
									}
									continue
								}
							}
							k := fmt.Sprintf("%p/%d", ins, ai)
							d := callDefs[k]
							if d == nil {
								d = &def{kind: dCall, instr: ins}
								callDefs[k] = d
							}
							cur[l] = defset{d}
						}
					}
				}
			}
			if out[bi] == nil || !sameState(out[bi], cur) {
				out[bi] = cur
				changed = true
			}
		}
		if !changed {
			break
		}
	}
	for _, ret := range returnsOf(fn) {
		st := rd.at[ret]
		for l, ds := range st {
			rd.exit[l] = mergeDefs(rd.exit[l], ds)
		}
	}
	return rd
}

func sameState(a, b map[loc]defset) bool {
	if len(a) != len(b) {
		return false
	}
	for l, ds := range a {
		if !sameDefs(ds, b[l]) {
			return false
		}
	}
	return true
}

// closureStores: does the closure (or closures nested in it) store to its free variable?
func (m *Model) closureStores(clos *ssa.Function, fv *ssa.FreeVar) bool {
	if fv.Referrers() == nil {
		return false
	}
	for _, ref := range *fv.Referrers() {
		if st, ok := ref.(*ssa.Store); ok && st.Addr == ssa.Value(fv) {
			return true
		}
	}
	return false
}

// closureStoreDominatesExit: some store to fv dominates every normal return of the closure.
func (m *Model) closureStoreDominatesExit(clos *ssa.Function, fv *ssa.FreeVar) bool {
	for _, ref := range *fv.Referrers() {
		st, ok := ref.(*ssa.Store)
		if !ok || st.Addr != ssa.Value(fv) {
			continue
		}
		all := true
		for _, ret := range returnsOf(clos) {
			if !(st.Block() == ret.Block() || st.Block().Dominates(ret.Block())) {
				all = false
			}
		}
		if all {
			return true
		}
	}
	return false
}

// ---------------------------------------------------------------------------
// terms
// ---------------------------------------------------------------------------

type Term struct {
	Kind string // const, zero, param, scan, call, add1, phi, field, binop, opaque, closure
	Name string
	Args []*Term
	// for scan terms
	Site   *SQLSite
	Col    string
	Handle string
}

func (t *Term) String() string {
	if t == nil {
		return "?"
	}
	switch t.Kind {
	case "zero":
		return "zero"
	case "phi":
		parts := make([]string, len(t.Args))
		for i, a := range t.Args {
			parts[i] = a.String()
		}
		sort.Strings(parts)
		return "phi{" + strings.Join(parts, " | ") + "}"
	}
	if len(t.Args) == 0 {
		return t.Kind + ":" + t.Name
	}
	parts := make([]string, len(t.Args))
	for i, a := range t.Args {
		parts[i] = a.String()
	}
	return t.Kind + ":" + t.Name + "(" + strings.Join(parts, ", ") + ")"
}

func mkPhi(ts []*Term) *Term {
	// flatten and dedupe
	var flat []*Term
	var add func(t *Term)
	seen := map[string]bool{}
	add = func(t *Term) {
		if t.Kind == "phi" {
			for _, a := range t.Args {
				add(a)
			}
			return
		}
		s := t.String()
		if t.Kind == "zero" {
			s += "/" + t.Name // keep zeros of different provenance apart (norow / reset / plain)
		}
		if !seen[s] {
			seen[s] = true
			flat = append(flat, t)
		}
	}
	for _, t := range ts {
		add(t)
	}
	if len(flat) == 1 {
		return flat[0]
	}
	sort.Slice(flat, func(i, j int) bool { return flat[i].String() < flat[j].String() })
	return &Term{Kind: "phi", Args: flat}
}

// leaves returns the alternatives of a term (the arguments of a phi, or the term itself).
func (t *Term) alts() []*Term {
	if t.Kind == "phi" {
		return t.Args
	}
	return []*Term{t}
}

type termKey struct {
	v  ssa.Value
	at ssa.Instruction
	fr *frame
}

type termEval struct {
	m     *Model
	memo  map[termKey]*Term
	busy  map[termKey]bool
	depth int
	// writePoint, when set, lets scan terms say whether they read the row before or after it
	writePoints []ssa.Instruction
}

func (m *Model) newTermEval() *termEval {
	return &termEval{m: m, memo: map[termKey]*Term{}, busy: map[termKey]bool{}}
}

func isZeroValueConst(c *ssa.Const) bool {
	if c.Value == nil {
		return true
	}
	switch c.Value.Kind().String() {
	case "Bool":
		return c.Value.String() == "false"
	case "Int", "Float":
		return c.Value.String() == "0"
	case "String":
		return c.Value.ExactString() == `""`
	}
	return false
}

// term evaluates value v as seen at instruction `at` in frame fr.
func (e *termEval) term(v ssa.Value, at ssa.Instruction, fr *frame) *Term {
	if v == nil {
		return &Term{Kind: "opaque", Name: "nil-value"}
	}
	k := termKey{v, at, fr}
	if t, ok := e.memo[k]; ok {
		return t
	}
	if e.busy[k] || e.depth > 40 {
		return &Term{Kind: "opaque", Name: "cyclic:" + v.Name()}
	}
	e.busy[k] = true
	e.depth++
	t := e.term1(v, at, fr)
	e.depth--
	delete(e.busy, k)
	e.memo[k] = t
	return t
}

func (e *termEval) term1(v ssa.Value, at ssa.Instruction, fr *frame) *Term {
	m := e.m
	switch x := v.(type) {
	case *ssa.Const:
		if isZeroValueConst(x) {
			return &Term{Kind: "zero"}
		}
		return &Term{Kind: "const", Name: x.Value.ExactString()}
	case *ssa.ChangeType:
		return e.term(x.X, at, fr)
	case *ssa.Convert:
		return e.term(x.X, at, fr)
	case *ssa.MakeInterface:
		return e.term(x.X, at, fr)
	case *ssa.ChangeInterface:
		return e.term(x.X, at, fr)
	case *ssa.Parameter:
		if av, afr, ok := fr.actual(x); ok {
			return e.term(av, fr.call, afr)
		}
		return &Term{Kind: "param", Name: m.declName(x.Parent()) + "." + x.Name()}
	case *ssa.Phi:
		var ts []*Term
		for _, ed := range x.Edges {
			ts = append(ts, e.term(ed, at, fr))
		}
		return mkPhi(ts)
	case *ssa.BinOp:
		a, b := e.term(x.X, at, fr), e.term(x.Y, at, fr)
		if x.Op == token.ADD {
			if c, ok := stripConv(x.Y).(*ssa.Const); ok && c.Value != nil && c.Value.ExactString() == "1" {
				return &Term{Kind: "add1", Name: "", Args: []*Term{a}}
			}
		}
		return &Term{Kind: "binop", Name: x.Op.String(), Args: []*Term{a, b}}
	case *ssa.Alloc:
		return &Term{Kind: "alloc", Name: fmt.Sprintf("%s#%s", m.declName(x.Parent()), x.Name())}
	case *ssa.Extract:
		if call, ok := x.Tuple.(*ssa.Call); ok {
			return e.callResult(call, x.Index, fr)
		}
		if ta, ok := x.Tuple.(*ssa.TypeAssert); ok {
			return &Term{Kind: "call", Name: "typeassert", Args: []*Term{e.term(ta.X, at, fr)}}
		}
		return &Term{Kind: "opaque", Name: m.declName(x.Parent()) + ":" + x.Name()}
	case *ssa.Call:
		return e.callResult(x, 0, fr)
	case *ssa.Field:
		if t := e.structField(x.X, x.Field, at, fr, 0); t != nil {
			return t
		}
		return &Term{Kind: "field", Name: fieldOfField(x).Name(), Args: []*Term{e.term(x.X, at, fr)}}
	case *ssa.Slice:
		return &Term{Kind: "call", Name: "slice", Args: []*Term{e.term(x.X, at, fr)}}
	case *ssa.UnOp:
		if x.Op != token.MUL {
			return &Term{Kind: "call", Name: "unop" + x.Op.String(), Args: []*Term{e.term(x.X, at, fr)}}
		}
		return e.load(x, fr)
	case *ssa.FreeVar:
		// the cell's address itself (not a load)
		return &Term{Kind: "cell", Name: x.Name()}
	case *ssa.Global:
		return &Term{Kind: "global", Name: x.Name()}
	case *ssa.Function:
		return &Term{Kind: "func", Name: m.declName(x)}
	case *ssa.Builtin:
		return &Term{Kind: "func", Name: x.Name()}
	}
	if v.Parent() == nil {
		return &Term{Kind: "opaque", Name: v.Name()}
	}
	return &Term{Kind: "opaque", Name: m.declName(v.Parent()) + ":" + v.Name()}
}

// load evaluates *addr at the load instruction itself.
func (e *termEval) load(ld *ssa.UnOp, fr *frame) *Term {
	m := e.m
	fn := ld.Parent()
	rd := m.reaching(fn)
	state := rd.at[ld]
	if state == nil {
		state = map[loc]defset{}
	}
	addr := stripConv(ld.X)
	if g, ok := addr.(*ssa.Global); ok {
		return &Term{Kind: "global", Name: g.Name()}
	}
	l, ok := m.locOf(addr, state)
	if !ok {
		return &Term{Kind: "opaque", Name: m.declName(fn) + ":" + ld.Name()}
	}
	ds, have := state[l]
	if !have {
		ds = defset{entryDef}
	}
	return e.defsTerm(l, ds, ld, fr)
}

func (e *termEval) defsTerm(l loc, ds defset, at ssa.Instruction, fr *frame) *Term {
	var ts []*Term
	for _, d := range ds {
		switch d.kind {
		case dStore:
			st := e.term(d.store.Val, d.store, fr)
			if st.Kind == "zero" {
				// a zero stored over a location that a Scan had filled: the row's value is forgotten
				if before := e.m.reaching(d.store.Parent()).at[d.store]; before != nil {
					for _, d2 := range before[l] {
						if d2.kind == dScan && !e.m.storeBehindScanFailure(d.store, d2.scan) {
							st = &Term{Kind: "zero", Name: "reset"}
						}
					}
				}
			}
			ts = append(ts, st)
		case dScan:
			ts = append(ts, e.scanTerm(d, fr))
		case dStructCopy:
			// the field of the struct value that was stored
			src := stripConv(d.store.Val)
			st := e.m.reaching(d.store.Parent()).at[d.store]
			if st == nil {
				st = map[loc]defset{}
			}
			if ld, ok := src.(*ssa.UnOp); ok && ld.Op == token.MUL {
				sl := loc{e.m.objOf(ld.X, st), d.col}
				sds, have := st[sl]
				if !have {
					sds = defset{entryDef}
				}
				ct := e.defsTerm(sl, sds, d.store, fr)
				if ct.Kind == "zero" {
					ct = &Term{Kind: "zero", Name: "reset"}
				}
				ts = append(ts, ct)
			} else if c, ok := src.(*ssa.Const); ok && c.Value == nil {
				ts = append(ts, &Term{Kind: "zero", Name: "reset"})
			} else if sf := e.structField(src, d.col, d.store, fr, 0); sf != nil {
				ts = append(ts, sf)
			} else {
				ts = append(ts, &Term{Kind: "field", Name: fmt.Sprint(d.col), Args: []*Term{e.term(src, d.store, fr)}})
			}
		case dHelper:
			callee := d.call.Common().StaticCallee()
			if callee == nil || fr == nil || fr.depth >= 4 {
				ts = append(ts, &Term{Kind: "opaque", Name: "written-by-helper@" + e.m.declName(d.instr.Parent())})
				break
			}
			cfr := fr.inline(d.call, callee)
			crd := e.m.reaching(callee)
			n0 := len(ts)
			for _, ret := range returnsOf(callee) {
				if e.m.isFailureReturn(ret) {
					continue
				}
				st := crd.at[ret]
				l2 := loc{d.param, d.col}
				ds2, have := st[l2]
				if !have {
					ds2 = defset{entryDef}
				}
				ts = append(ts, e.defsTerm(l2, ds2, ret, cfr))
			}
			if len(ts) == n0 {
				ts = append(ts, &Term{Kind: "opaque", Name: "written-by-helper@" + e.m.declName(d.instr.Parent())})
			}
		case dCall:
			ts = append(ts, &Term{Kind: "opaque", Name: "written-by-call@" + e.m.declName(d.instr.Parent())})
		case dClosure:
			// value at the closure's exit
			cfr := &frame{fn: d.clos, caller: fr, depth: fr.depth}
			crd := e.m.reaching(d.clos)
			cds := crd.exit[loc{d.fv, -1}]
			if len(cds) == 0 {
				cds = defset{entryDef}
			}
			var rets []ssa.Instruction
			for _, r := range returnsOf(d.clos) {
				rets = append(rets, r)
			}
			var at2 ssa.Instruction = d.instr
			if len(rets) > 0 {
				at2 = rets[0]
			}
			// entry defs inside the closure mean "the value before the call" — exclude self-reference
			var inner defset
			for _, cd := range cds {
				if cd.kind != dEntry {
					inner = append(inner, cd)
				}
			}
			if len(inner) > 0 {
				ts = append(ts, e.defsTerm(loc{d.fv, -1}, inner, at2, cfr))
			}
		case dEntry:
			if al, ok := l.obj.(*ssa.Alloc); ok && len(ds) > 1 && at != nil && al.Parent() == at.Parent() {
				// the zero value is observable only if some path from the allocation reaches `at` without passing a definition
				c := newCut()
				for _, d2 := range ds {
					if d2.instr != nil && d2.kind == dStore {
						c.cutBlock(d2.instr.Block())
					}
				}
				if al.Block() != at.Block() && !reachableFrom(al.Block(), c)[at.Block().Index] {
					continue
				}
			}
			et := e.entryTerm(l, at, fr)
			if et.Kind == "zero" {
				for _, d2 := range ds {
					if d2.kind == dScan {
						// the value a Scan destination keeps when no row was read
						et = &Term{Kind: "zero", Name: "norow"}
					}
				}
			}
			ts = append(ts, et)
		}
	}
	if len(ts) == 0 {
		return &Term{Kind: "opaque", Name: "no-def"}
	}
	return mkPhi(ts)
}

// entryTerm: the value a location has when the function starts.
func (e *termEval) entryTerm(l loc, at ssa.Instruction, fr *frame) *Term {
	m := e.m
	switch o := l.obj.(type) {
	case *ssa.Alloc:
		// a fresh local: zero value (for a composite literal, fields not stored are zero)
		return &Term{Kind: "zero"}
	case *ssa.FreeVar:
		// captured cell: its value where the closure was created, in the lexical parent
		bind, _ := m.freeVarBinding(o, nil)
		clos := o.Parent()
		parent := clos.Parent()
		if bind == nil || parent == nil {
			return &Term{Kind: "opaque", Name: "freevar:" + o.Name()}
		}
		var pfr *frame
		if fr != nil && fr.fn == clos && fr.caller != nil && fr.caller.fn == parent {
			pfr = fr.caller
		} else {
			pfr = topFrame(parent)
		}
		cell, ok := bind.(*ssa.Alloc)
		if !ok {
			return e.term(bind, nil, pfr)
		}
		// find the MakeClosure instruction
		var mcInstr ssa.Instruction
		for _, b := range parent.Blocks {
			for _, ins := range b.Instrs {
				if mc, ok := ins.(*ssa.MakeClosure); ok && mc.Fn == clos {
					mcInstr = mc
				}
			}
		}
		if mcInstr == nil {
			return &Term{Kind: "opaque", Name: "freevar:" + o.Name()}
		}
		// the state at the call that receives the closure (MakeClosure itself is not recorded): use the next recorded instruction
		prd := m.reaching(parent)
		var st map[loc]defset
		blk := mcInstr.Block()
		for i := indexIn(blk, mcInstr); i < len(blk.Instrs); i++ {
			if s, ok := prd.at[blk.Instrs[i]]; ok {
				st = s
				break
			}
		}
		pl := loc{cell, l.field}
		if l.field >= 0 {
			pl = loc{m.objOf(cell, st), l.field}
		}
		ds, have := st[pl]
		if !have {
			ds = defset{entryDef}
		}
		return e.defsTerm(pl, ds, mcInstr, pfr)
	case *ssa.Parameter:
		// field of the object a pointer parameter points to: look at the caller
		if av, afr, ok := fr.actual(o); ok && l.field >= 0 {
			callerFn := afr.fn
			crd := m.reaching(callerFn)
			st := crd.at[fr.call]
			if st == nil {
				st = map[loc]defset{}
			}
			cl := loc{m.objOf(av, st), l.field}
			ds, have := st[cl]
			if !have {
				ds = defset{entryDef}
			}
			return e.defsTerm(cl, ds, fr.call, afr)
		}
		name := o.Name()
		if l.field >= 0 {
			if pt, ok := o.Type().Underlying().(*types.Pointer); ok {
				if st, ok := pt.Elem().Underlying().(*types.Struct); ok && l.field < st.NumFields() {
					name += "." + st.Field(l.field).Name()
				}
			}
			if e.m.isTopReceiver(o) {
				return &Term{Kind: "recv", Name: name}
			}
		}
		return &Term{Kind: "param", Name: m.declName(o.Parent()) + "." + name}
	}
	// an object built by a package constructor: the field's value at the constructor's returns
	if t := e.constructedField(l.obj, l.field, fr); t != nil {
		return t
	}
	// field of an opaque pointer value
	if l.field >= 0 {
		base := e.term(l.obj, at, fr)
		fname := fmt.Sprint(l.field)
		if pt, ok := l.obj.Type().Underlying().(*types.Pointer); ok {
			if st, ok := pt.Elem().Underlying().(*types.Struct); ok && l.field < st.NumFields() {
				fname = st.Field(l.field).Name()
			}
		}
		return &Term{Kind: "field", Name: fname, Args: []*Term{base}}
	}
	return &Term{Kind: "opaque", Name: "entry:" + l.obj.Name()}
}

func (m *Model) isTopReceiver(p *ssa.Parameter) bool {
	fn := p.Parent()
	return fn.Signature.Recv() != nil && len(fn.Params) > 0 && fn.Params[0] == p
}

// scanTerm: the column a Scan destination receives.
func (e *termEval) scanTerm(d *def, fr *frame) *Term {
	sc := d.scan
	t := &Term{Kind: "scan", Name: "?"}
	site := sc.Site
	if site == nil && sc.Row != nil && fr != nil {
		// a reader that is handed the row by several callers: the row of THIS calling context
		site = e.m.rowSource(sc.Row, fr)
	}
	if site == nil {
		return t
	}
	t.Site = site
	// handle class in this calling context
	t.Handle = classList(site)
	if fr != nil {
		rv, _ := e.m.resolve(site.Recv, fr)
		if isPtrToNamed(stripConv(rv).Type(), "database/sql", "Tx") {
			t.Handle = "txn"
		} else if isPtrToNamed(stripConv(rv).Type(), "database/sql", "DB") {
			t.Handle = "pool"
		} else if c, ok := stripConv(rv).(*ssa.Call); ok {
			cls := map[HandleClass]bool{}
			e.m.classifyHandle(c, fr, cls, map[ssa.Value]bool{}, 0)
			var names []string
			for k := range cls {
				names = append(names, k.String())
			}
			sort.Strings(names)
			t.Handle = strings.Join(names, "|")
		}
	}
	var cols []string
	table := "?"
	for _, v := range site.Variants {
		st := v.Stmt()
		if st != nil && st.Kind == sqlp.SPragma {
			cols = append(cols, "pragma:"+st.PragmaName)
			continue
		}
		if st == nil || st.Select == nil || d.col >= len(st.Select.Cols) {
			continue
		}
		if len(st.Select.From) == 1 {
			table = lower(st.Select.From[0].Name)
		}
		cols = append(cols, lower(st.Select.Cols[d.col].Expr.String()))
	}
	cols = uniq(cols)
	t.Col = strings.Join(cols, "|")
	when := ""
	if len(e.writePoints) > 0 {
		after := false
		for _, wp := range e.writePoints {
			// the instruction, in the write point's function, that stands for this read
			var anchor ssa.Instruction = site.Call
			for f := fr; f != nil && anchor != nil && anchor.Parent() != wp.Parent(); f = f.caller {
				if f.call != nil {
					anchor = f.call
				} else {
					anchor = nil
				}
			}
			if anchor != nil && anchor.Parent() == wp.Parent() && instrReachable(wp, anchor, nil) {
				after = true
			}
		}
		if after {
			when = ":post"
		} else {
			when = ":pre"
		}
	}
	t.Name = fmt.Sprintf("%s.%s[%s]%s", table, t.Col, t.Handle, when)
	return t
}

// callResult: result idx of a call; package-local helpers are inlined (depth-limited),
// everything else is an uninterpreted function of its argument terms.
func (e *termEval) callResult(call *ssa.Call, idx int, fr *frame) *Term {
	m := e.m
	cc := call.Common()
	callee := cc.StaticCallee()
	if callee != nil && m.inPkg(callee) && len(callee.Blocks) > 0 && fr.depth < 2 && callee != m.A.TxnRunner && callee != m.A.Allocator && m.isWriteHelper(callee) {
		// do not inline functions that run SQL themselves unless they are handle-taking helpers
		cfr := fr.inline(call, callee)
		var ts []*Term
		for _, ret := range returnsOf(callee) {
			if idx < len(ret.Results) && !m.isFailureReturn(ret) {
				ts = append(ts, e.term(ret.Results[idx], ret, cfr))
			}
		}
		if len(ts) > 0 {
			return mkPhi(ts)
		}
	}
	name := "dynamic"
	if callee != nil {
		name = callee.Name()
		if callee.Pkg != nil && callee.Pkg != m.SSA {
			name = callee.Pkg.Pkg.Name() + "." + name
		}
	} else if cc.IsInvoke() {
		name = "invoke." + cc.Method.Name()
	}
	var args []*Term
	for _, a := range cc.Args {
		// variadic packs: expand
		if sl, ok := a.(*ssa.Slice); ok {
			if vals, dyn := varargValues(sl); !dyn {
				for _, v := range vals {
					args = append(args, e.term(v, call, fr))
				}
				continue
			}
		}
		args = append(args, e.term(a, call, fr))
	}
	if cc.IsInvoke() {
		args = append([]*Term{e.term(cc.Value, call, fr)}, args...)
	}
	if idx > 0 {
		name += fmt.Sprintf("#%d", idx)
	}
	// idempotent offset-to-absolute: abs(abs(x)) == abs(x)
	if callee != nil && callee == m.A.AbsExpiry && len(args) == 1 {
		inner := args[0]
		allAbs := true
		for _, alt := range inner.alts() {
			if !(alt.Kind == "call" && alt.Name == name) {
				allAbs = false
			}
		}
		if allAbs {
			return inner
		}
	}
	return &Term{Kind: "call", Name: name, Args: args}
}

// ---------------------------------------------------------------------------
// write units
// ---------------------------------------------------------------------------

type colSrc struct {
	Kind string // bound, literal, sqlexpr, unassigned
	Term *Term
	Expr *sqlp.Expr
}

func (c colSrc) String() string {
	switch c.Kind {
	case "bound":
		return "bound " + c.Term.String()
	case "literal", "sqlexpr":
		return c.Kind + " " + c.Expr.String()
	}
	return c.Kind
}

// writeUnit is one documents-writing statement variant reached from a transaction closure.
type writeUnit struct {
	K       *ssa.Function // the transaction closure
	Site    *SQLSite
	Variant *Variant
	Stmt    *sqlp.Stmt
	Frame   *frame          // frame in which the site's arguments are evaluated
	Point   ssa.Instruction // the instruction in K that performs (or leads to) the write
	Cols    map[string]colSrc
	Upsert  bool
}

// closureFrame builds the frame of transaction closure K: its lexical parent as top frame.
func (m *Model) closureFrame(K *ssa.Function) *frame {
	if K.Parent() == nil {
		// a method that is used (once) as a bound method value `x.m`: its receiver is x
		if K.Signature.Recv() != nil {
			var site *ssa.MakeClosure
			n := 0
			for _, g := range m.Funcs {
				for _, b := range g.Blocks {
					for _, ins := range b.Instrs {
						mc, ok := ins.(*ssa.MakeClosure)
						if !ok || len(mc.Bindings) != 1 {
							continue
						}
						w, ok := mc.Fn.(*ssa.Function)
						if !ok || !strings.HasSuffix(w.Name(), "$bound") {
							continue
						}
						for _, t := range m.funcTargets(mc) {
							if t == K {
								site = mc
								n++
							}
						}
					}
				}
			}
			if n == 1 && site.Parent() != K {
				return &frame{fn: K, caller: m.closureFrame(site.Parent()), recv: site.Bindings[0]}
			}
		}
		return topFrame(K)
	}
	return &frame{fn: K, caller: m.closureFrame(K.Parent())}
}

func (m *Model) writeUnits(e *termEval) []*writeUnit {
	var out []*writeUnit
	for _, tc := range m.txnClosures() {
		if tc.Fn == m.A.AllocClos || tc.Fn == m.A.AllocOuter {
			continue
		}
		K := tc.Fn
		kfr := m.closureFrame(K)
		for _, dw := range m.docWrites() {
			var fr *frame
			var point ssa.Instruction
			if dw.Site.Fn == K {
				fr, point = kfr, dw.Site.Call
			} else {
				// helper called from K, possibly through other write helpers
				var chain func(cur *frame, fn *ssa.Function, top ssa.Instruction, depth int)
				chain = func(cur *frame, fn *ssa.Function, top ssa.Instruction, depth int) {
					m.eachCall(fn, func(c ssa.CallInstruction) {
						callee := c.Common().StaticCallee()
						if callee == nil || !m.inPkg(callee) || len(callee.Blocks) == 0 {
							return
						}
						t := top
						if t == nil {
							t = c
						}
						if callee == dw.Site.Fn {
							fr, point = cur.inline(c, callee), t
							return
						}
						if depth < 2 && callee != m.A.TxnRunner && callee != m.A.Allocator && m.isWriteHelper(callee) && m.reachableLocal(callee)[dw.Site.Fn] {
							chain(cur.inline(c, callee), callee, t, depth+1)
						}
					})
				}
				chain(kfr, K, nil, 0)
			}
			if fr == nil {
				continue
			}
			wu := &writeUnit{K: K, Site: dw.Site, Variant: dw.Variant, Stmt: dw.Stmt, Frame: fr, Point: point, Cols: map[string]colSrc{}, Upsert: dw.W.HasUpsert}
			docs := m.Schema.Table("documents")
			for _, cn := range docs.Order {
				col := lower(cn)
				var ex *sqlp.Expr
				// for an upsert the update part describes the existing-row case; prefer it, fall back to insert
				if dw.W.Update != nil {
					ex = dw.W.Update[col]
				}
				if ex == nil && dw.W.Insert != nil {
					ex = dw.W.Insert[col]
				}
				switch {
				case ex == nil:
					wu.Cols[col] = colSrc{Kind: "unassigned"}
				case ex.Kind == sqlp.EParam:
					cs := dw.siteFor(col)
					b, ok := cs.bindingFor(ex)
					if !ok || b.V == nil {
						wu.Cols[col] = colSrc{Kind: "bound", Term: &Term{Kind: "opaque", Name: "unbound-parameter"}, Expr: ex}
					} else {
						bfr := fr
						if b.Fr != nil && b.Fr.caller != nil {
							// a value inside the statement helper (or its argument packer): its own frame,
							// hung under this calling context
							bfr = rerootFrame(b.Fr, fr)
						}
						wu.Cols[col] = colSrc{Kind: "bound", Term: e.term(b.V, cs.Call, bfr), Expr: ex}
					}
				case ex.Kind == sqlp.ELit:
					wu.Cols[col] = colSrc{Kind: "literal", Expr: ex}
				default:
					wu.Cols[col] = colSrc{Kind: "sqlexpr", Expr: ex}
				}
			}
			out = append(out, wu)
		}
	}
	return out
}

// eventAtReturns: the field terms of the event object a closure returns (or, for closures
// that store the event in a captured cell, of that cell's object) at its success returns.
func (m *Model) eventAtReturns(e *termEval, K *ssa.Function) (map[*types.Var]*Term, bool, string) {
	a := &m.A
	if a.EventType == nil {
		return nil, false, "event type unresolved"
	}
	st := a.EventType.Underlying().(*types.Struct)
	kfr := m.closureFrame(K)
	rd := m.reaching(K)
	fields := map[*types.Var][]*Term{}
	nEv := 0
	nilOnly := true
	for _, ret := range returnsOf(K) {
		var evV ssa.Value
		for _, res := range ret.Results {
			if pt, ok := res.Type().(*types.Pointer); ok && pt.Elem() == a.EventType {
				evV = res
			}
		}
		state := rd.at[ret]
		if evV == nil {
			// closure stores the event in a captured cell (writeWithMeta): find a FreeVar of type **event
			for _, fv := range K.FreeVars {
				if pt, ok := fv.Type().(*types.Pointer); ok {
					if pt2, ok := pt.Elem().(*types.Pointer); ok && pt2.Elem() == a.EventType {
						ds := state[loc{fv, -1}]
						if len(ds) == 1 && ds[0].kind == dStore {
							evV = ds[0].store.Val
						}
					}
				}
			}
		}
		if evV == nil {
			continue
		}
		// error returns carry no event worth checking: skip returns whose event is the nil constant
		if c, ok := stripConv(evV).(*ssa.Const); ok && c.Value == nil {
			continue
		}
		// several allocation sites may flow to the return (phi): check each
		var objs []ssa.Value
		var collect func(v ssa.Value, depth int)
		collect = func(v ssa.Value, depth int) {
			v = stripConv(v)
			if phi, ok := v.(*ssa.Phi); ok && depth < 4 {
				for _, ed := range phi.Edges {
					collect(ed, depth+1)
				}
				return
			}
			if c, ok := v.(*ssa.Const); ok && c.Value == nil {
				return
			}
			objs = append(objs, m.objOf(v, state))
		}
		collect(evV, 0)
		for _, obj := range objs {
			nilOnly = false
			nEv++
			for _, ff := range flatFields(st) {
				l := loc{obj, ff.idx}
				ds, have := state[l]
				if !have {
					ds = defset{entryDef}
				}
				fields[ff.v] = append(fields[ff.v], e.defsTerm(l, ds, ret, kfr))
			}
		}
	}
	if nEv == 0 {
		if nilOnly {
			return nil, false, "the closure returns no event"
		}
		return nil, false, "cannot identify the event object the closure returns"
	}
	out := map[*types.Var]*Term{}
	for f, ts := range fields {
		out[f] = mkPhi(ts)
	}
	return out, true, ""
}

// isWriteHelper: a package function that works on the transaction handle, the queryable
// interface or an event object (these are inlined; everything else is an uninterpreted symbol).
func (m *Model) isWriteHelper(fn *ssa.Function) bool {
	for _, p := range fn.Params {
		t := p.Type()
		if isPtrToNamed(t, "database/sql", "Tx") || isPtrToNamed(t, "database/sql", "DB") || t == types.Type(m.A.Queryable) {
			return true
		}
		// a reader that is handed the row to scan
		if isPtrToNamed(t, "database/sql", "Row") || isPtrToNamed(t, "database/sql", "Rows") {
			return true
		}
		if pt, ok := t.(*types.Pointer); ok && m.A.EventType != nil && pt.Elem() == m.A.EventType && p != fn.Params[0] {
			return true
		}
	}
	return false
}

// isFailureReturn: a return of an inlined helper that reports an error (its results are
// not used by callers that test the error first).
func (m *Model) isFailureReturn(ret *ssa.Return) bool {
	if len(ret.Results) == 0 {
		return false
	}
	errV := ret.Results[len(ret.Results)-1]
	if !types.Identical(errV.Type(), types.Universe.Lookup("error").Type()) {
		return false
	}
	if c, ok := errV.(*ssa.Const); ok && c.Value == nil {
		return false
	}
	// a named result that a deferred closure captures is returned through its cell: the value is
	// what the return statement stored there (or, for a bare return, what the cell held)
	var cell *ssa.Alloc
	if ld, ok := errV.(*ssa.UnOp); ok && ld.Op == token.MUL {
		if al, ok := ld.X.(*ssa.Alloc); ok {
			cell = al
			instrs := ret.Block().Instrs
			for i := len(instrs) - 1; i >= 0; i-- {
				st, ok := instrs[i].(*ssa.Store)
				if !ok || st.Addr != ssa.Value(al) {
					continue
				}
				if ld2, ok := st.Val.(*ssa.UnOp); ok && ld2.Op == token.MUL && ld2.X == ssa.Value(al) {
					break // `return x, err`: the cell keeps its value
				}
				cell = nil
				errV = st.Val
				break
			}
		}
	}
	if c, ok := errV.(*ssa.Const); ok && c.Value == nil {
		return false
	}
	if _, ok := errV.(*ssa.MakeInterface); ok {
		return true
	}
	if ld, ok := errV.(*ssa.UnOp); ok {
		if _, isG := ld.X.(*ssa.Global); isG {
			return true // a sentinel error variable
		}
	}
	// origins of the returned error
	origins := map[ssa.Value]bool{}
	var collect func(v ssa.Value, d int)
	collect = func(v ssa.Value, d int) {
		if d > 3 || v == nil || origins[v] {
			return
		}
		origins[v] = true
		switch x := v.(type) {
		case *ssa.Phi:
			for _, e := range x.Edges {
				collect(e, d+1)
			}
		case *ssa.Call:
			for _, a := range x.Common().Args {
				if types.Identical(a.Type(), types.Universe.Lookup("error").Type()) {
					collect(a, d+1)
				}
			}
		}
	}
	collect(errV, 0)
	fn := ret.Parent()
	for _, ct := range controllingConds(fn, ret.Block()) {
		cd := condOf(ct.If)
		eq, ok := cd.equalEdge()
		if !ok || !(isNilConst(cd.X) || isNilConst(cd.Y)) {
			continue
		}
		other := cd.X
		if isNilConst(cd.X) {
			other = cd.Y
		}
		if !origins[stripConv(other)] && !origins[other] {
			ld, isLd := stripConv(other).(*ssa.UnOp)
			if !isLd || ld.Op != token.MUL {
				continue
			}
			// another load of the cell the returned error (or the error handed to its translator)
			// was loaded from, with no store to the cell in between
			sameCell := cell != nil && ld.X == ssa.Value(cell)
			for o := range origins {
				if ol, ok := o.(*ssa.UnOp); ok && ol.Op == token.MUL && ol.X == ld.X {
					if al, ok := ld.X.(*ssa.Alloc); ok {
						clean := true
						for _, st := range cellStores(al) {
							if forwardReachable(ld, st) && forwardReachable(st, ol) {
								clean = false
							}
						}
						if clean {
							sameCell = true
						}
					}
				}
			}
			if !sameCell {
				continue
			}
		}
		taken := ct.If.Block().Succs[0]
		if !ct.Branch {
			taken = ct.If.Block().Succs[1]
		}
		if taken != eq {
			return true // reached through "err != nil"
		}
	}
	return false
}

// constructedField: obj is the (pointer) result of a call to a package function; the term of
// its field is the field's value in the object the callee returns, evaluated in the inlined frame.
func (e *termEval) constructedField(obj ssa.Value, field int, fr *frame) *Term {
	m := e.m
	if field < 0 || fr == nil {
		return nil
	}
	var call *ssa.Call
	idx := 0
	switch x := obj.(type) {
	case *ssa.Call:
		call = x
	case *ssa.Extract:
		c, ok := x.Tuple.(*ssa.Call)
		if !ok {
			return nil
		}
		call, idx = c, x.Index
	default:
		return nil
	}
	callee := call.Common().StaticCallee()
	if callee == nil || !m.inPkg(callee) || len(callee.Blocks) == 0 || fr.depth >= 3 || fr.fn != call.Parent() {
		return nil
	}
	cfr := fr.inline(call, callee)
	rd := m.reaching(callee)
	var ts []*Term
	for _, ret := range returnsOf(callee) {
		if idx >= len(ret.Results) || m.isFailureReturn(ret) {
			continue
		}
		state := rd.at[ret]
		var objs []ssa.Value
		var collect func(v ssa.Value, depth int)
		collect = func(v ssa.Value, depth int) {
			v = stripConv(v)
			if phi, ok := v.(*ssa.Phi); ok && depth < 4 {
				for _, ed := range phi.Edges {
					collect(ed, depth+1)
				}
				return
			}
			if c, ok := v.(*ssa.Const); ok && c.Value == nil {
				return
			}
			objs = append(objs, m.objOf(v, state))
		}
		collect(ret.Results[idx], 0)
		for _, o := range objs {
			l := loc{o, field}
			ds, have := state[l]
			if !have {
				ds = defset{entryDef}
			}
			ts = append(ts, e.defsTerm(l, ds, ret, cfr))
		}
	}
	if len(ts) == 0 {
		return nil
	}
	return mkPhi(ts)
}

// structField: the term of field `field` of a struct VALUE: a load of a struct the engine tracks
// field by field, the struct result of an inlinable package helper, or a phi of such.
func (e *termEval) structField(v ssa.Value, field int, at ssa.Instruction, fr *frame, depth int) *Term {
	m := e.m
	if depth > 4 {
		return nil
	}
	v = stripConv(v)
	switch x := v.(type) {
	case *ssa.UnOp:
		if x.Op != token.MUL {
			return nil
		}
		fn := x.Parent()
		state := m.reaching(fn).at[x]
		if state == nil {
			state = map[loc]defset{}
		}
		l := loc{m.objOf(x.X, state), field}
		ds, have := state[l]
		if !have {
			ds = defset{entryDef}
		}
		return e.defsTerm(l, ds, x, fr)
	case *ssa.Phi:
		var ts []*Term
		for _, ed := range x.Edges {
			t := e.structField(ed, field, at, fr, depth+1)
			if t == nil {
				return nil
			}
			ts = append(ts, t)
		}
		return mkPhi(ts)
	case *ssa.Extract:
		call, ok := x.Tuple.(*ssa.Call)
		if !ok {
			return nil
		}
		return e.structFieldOfCall(call, x.Index, field, fr, depth)
	case *ssa.Call:
		return e.structFieldOfCall(x, 0, field, fr, depth)
	case *ssa.Parameter:
		// a struct passed by value (e.g. the receiver of a value method): the caller's value
		if fr != nil {
			if av, afr, ok := fr.actual(x); ok {
				return e.structField(av, field, fr.call, afr, depth+1)
			}
		}
	}
	return nil
}

func (e *termEval) structFieldOfCall(call *ssa.Call, idx, field int, fr *frame, depth int) *Term {
	m := e.m
	callee := call.Common().StaticCallee()
	if callee == nil || !m.inPkg(callee) || len(callee.Blocks) == 0 || fr == nil || fr.depth >= 3 {
		return nil
	}
	if !m.isWriteHelper(callee) {
		// ... or a row reader that scans into a struct it returns (`c.readXattrReadRow(key)`)
		scans := false
		for _, sc := range m.scanCalls() {
			if sc.Fn == callee {
				scans = true
			}
		}
		// ... or a straight-line accessor that merely packs values into a struct (`c.docKey(key)`)
		if !scans {
			if rv, _ := m.accessorResult(call, idx, fr); rv == nil {
				return nil
			}
		}
	}
	cfr := fr.inline(call, callee)
	var ts []*Term
	for _, ret := range returnsOf(callee) {
		if idx >= len(ret.Results) || m.isFailureReturn(ret) {
			continue
		}
		t := e.structField(ret.Results[idx], field, ret, cfr, depth+1)
		if t == nil {
			return nil
		}
		ts = append(ts, t)
	}
	if len(ts) == 0 {
		return nil
	}
	return mkPhi(ts)
}

// paramFieldWrites: the (flattened) field indices of the object parameter #pi of fn points to that
// fn may write: stores through the parameter, Scan destinations, and writes of helpers it hands
// the pointer on to.
func (m *Model) paramFieldWrites(fn *ssa.Function, pi int, depth int) []int {
	if fn == nil || pi >= len(fn.Params) || depth > 2 || fn.Blocks == nil {
		return nil
	}
	p := fn.Params[pi]
	set := map[int]bool{}
	addAddr := func(a ssa.Value) {
		fa, ok := stripConv(a).(*ssa.FieldAddr)
		if !ok {
			return
		}
		if stripConv(fieldRoot(fa)) != ssa.Value(p) {
			return
		}
		if l, ok := m.locOf(fa, nil); ok && l.field >= 0 {
			set[l.field] = true
		}
	}
	for _, b := range fn.Blocks {
		for _, ins := range b.Instrs {
			switch x := ins.(type) {
			case *ssa.Store:
				addAddr(x.Addr)
			case ssa.CallInstruction:
				cc := x.Common()
				callee := cc.StaticCallee()
				for ai, arg := range cc.Args {
					a := stripConv(arg)
					if a == ssa.Value(p) && callee != nil && m.inPkg(callee) && callee != fn {
						for _, fi := range m.paramFieldWrites(callee, ai, depth+1) {
							set[fi] = true
						}
					}
				}
			}
		}
	}
	for _, sc := range m.scanCalls() {
		if sc.Fn == fn {
			for _, d := range sc.Dests {
				addAddr(d)
			}
		}
	}
	var out []int
	for fi := range set {
		out = append(out, fi)
	}
	sort.Ints(out)
	return out
}

// storeBehindScanFailure: the store executes only where the Scan's own error was found to be
// sql.ErrNoRows or non-nil, i.e. where the Scan filled nothing: a zero stored there ("no row:
// answer zeros") forgets nothing.
func (m *Model) storeBehindScanFailure(st *ssa.Store, sc *scanCall) bool {
	if sc == nil || sc.Call == nil || st.Parent() != sc.Call.Parent() {
		return false
	}
	errV := sc.Call.Value()
	if errV == nil {
		return false
	}
	fn := st.Parent()
	c := newCut()
	n := 0
	for _, iff := range allIfs(fn) {
		cd := condOf(iff)
		eq, ok := cd.equalEdge()
		if !ok {
			continue
		}
		x, y := stripConv(cd.X), stripConv(cd.Y)
		var other ssa.Value
		if x == ssa.Value(errV) {
			other = y
		} else if y == ssa.Value(errV) {
			other = x
		} else {
			continue
		}
		isNoRows := false
		if ld, ok := other.(*ssa.UnOp); ok && ld.Op == token.MUL {
			if g, ok := ld.X.(*ssa.Global); ok && g.Name() == "ErrNoRows" {
				isNoRows = true
			}
		}
		switch {
		case isNoRows:
			c.cutEdge(iff.Block(), eq) // err == sql.ErrNoRows
			n++
		case isNilConst(other):
			for _, sx := range iff.Block().Succs {
				if sx != eq {
					c.cutEdge(iff.Block(), sx) // err != nil
					n++
				}
			}
		}
	}
	return n > 0 && !reachableFromSuccs(sc.Call.Block(), c)[st.Block().Index] && st.Block() != sc.Call.Block()
}
