package sqlp

import (
	"fmt"
	"sort"
	"strings"
)

type ExprKind int

const (
	EColumn ExprKind = iota
	EParam
	ELit   // Text: NULL, TRUE, FALSE, number text, or 'string'
	EUnary // Op, Args[0]
	EBinary
	EFunc     // Name, Args (Star for count(*))
	EIsNull   // Args[0]; Not => IS NOT NULL
	EIn       // Args[0] IN (Sub | Args[1:]); Not
	EExists   // Sub; Not
	ESubquery // Sub
	ECase     // Args: [operand?] when,then,... [else]; opaque
	ECollate  // Args[0], Name=collation
	EBetween  // Args[0..2]; Not
	ECast     // Args[0], Name=type
	EStar     // table.* or *
)

type Expr struct {
	Kind  ExprKind
	Op    string  // operator for unary/binary, upper-case for word operators
	Table string  // for columns
	Name  string  // column / function / collation / param text
	Text  string  // literal text
	Param int     // 1-based parameter index (EParam)
	Args  []*Expr // operands
	Sub   *Select
	Not   bool
}

type ResultCol struct {
	Expr  *Expr
	Alias string
}

type TableRef struct {
	Name  string
	Alias string
	Sub   *Select
	Join  string // "", "INNER", "LEFT", "RIGHT", "CROSS", ","...
	On    *Expr
}

func (t *TableRef) RefName() string {
	if t.Alias != "" {
		return t.Alias
	}
	return t.Name
}

type OrderTerm struct {
	Expr    *Expr
	Desc    bool
	Collate string
}

type Select struct {
	Distinct bool
	Cols     []ResultCol
	From     []TableRef
	Where    *Expr
	GroupBy  []*Expr
	Having   *Expr
	OrderBy  []OrderTerm
	Limit    *Expr
	Offset   *Expr
	Compound []*Select // UNION etc. parts (opaque but kept for table collection)
}

type Assign struct {
	Col  string
	Expr *Expr
}

type Conflict struct {
	Target    []string
	DoNothing bool
	Set       []Assign
	Where     *Expr
}

type CTE struct {
	Name   string
	Select *Select
}

type StmtKind int

const (
	SSelect StmtKind = iota
	SInsert
	SUpdate
	SDelete
	SPragma
	SCreateTable
	SCreateIndex
	SOther
)

func (k StmtKind) String() string {
	return [...]string{"SELECT", "INSERT", "UPDATE", "DELETE", "PRAGMA", "CREATE TABLE", "CREATE INDEX", "OTHER"}[k]
}

type ColumnDef struct {
	Name       string
	Type       string
	NotNull    bool
	PrimaryKey bool
	AutoInc    bool
	Default    *Expr
	Collate    string
	RefTable   string
	RefCol     string
	OnDelete   string // CASCADE, ...
}

type Stmt struct {
	Kind     StmtKind
	Explain  bool
	With     []CTE
	Table    string // target of INSERT/UPDATE/DELETE/CREATE
	OrAction string // INSERT OR REPLACE etc.
	Cols     []string
	Values   [][]*Expr // INSERT ... VALUES rows
	InsSel   *Select   // INSERT ... SELECT
	Conflict *Conflict
	Set      []Assign
	Where    *Expr
	Select   *Select
	// DDL
	Columns   []ColumnDef
	Uniques   [][]string
	IndexName string
	IndexCols []*Expr
	// PRAGMA
	PragmaName  string
	PragmaValue *Expr
	NumParams   int // highest parameter index used
	ParamNames  map[string]int
	Raw         string
}

// ---------- printing (canonical, used in keys and evidence) ----------

func (e *Expr) String() string {
	if e == nil {
		return ""
	}
	switch e.Kind {
	case EColumn:
		if e.Table != "" {
			return e.Table + "." + e.Name
		}
		return e.Name
	case EParam:
		return e.Name
	case ELit:
		return e.Text
	case EUnary:
		if e.Op == "NOT" {
			return "NOT " + e.Args[0].String()
		}
		return e.Op + e.Args[0].String()
	case EBinary:
		return "(" + e.Args[0].String() + " " + e.Op + " " + e.Args[1].String() + ")"
	case EFunc:
		parts := make([]string, len(e.Args))
		for i, a := range e.Args {
			parts[i] = a.String()
		}
		return strings.ToLower(e.Name) + "(" + strings.Join(parts, ", ") + ")"
	case EIsNull:
		if e.Not {
			return e.Args[0].String() + " IS NOT NULL"
		}
		return e.Args[0].String() + " IS NULL"
	case EIn:
		s := e.Args[0].String()
		if e.Not {
			s += " NOT"
		}
		if e.Sub != nil {
			return s + " IN (SELECT ...)"
		}
		parts := []string{}
		for _, a := range e.Args[1:] {
			parts = append(parts, a.String())
		}
		return s + " IN (" + strings.Join(parts, ", ") + ")"
	case EExists:
		return "EXISTS (SELECT ...)"
	case ESubquery:
		return "(SELECT ...)"
	case ECase:
		return "CASE..."
	case ECollate:
		return e.Args[0].String() + " COLLATE " + e.Name
	case EBetween:
		return e.Args[0].String() + " BETWEEN " + e.Args[1].String() + " AND " + e.Args[2].String()
	case ECast:
		return "CAST(" + e.Args[0].String() + " AS " + e.Name + ")"
	case EStar:
		return "*"
	}
	return "?"
}

// Conjuncts flattens top-level ANDs.
func Conjuncts(e *Expr) []*Expr {
	if e == nil {
		return nil
	}
	if e.Kind == EBinary && e.Op == "AND" {
		return append(Conjuncts(e.Args[0]), Conjuncts(e.Args[1])...)
	}
	return []*Expr{e}
}

// Walk visits e and all sub-expressions (not descending into sub-selects).
func (e *Expr) Walk(f func(*Expr)) {
	if e == nil {
		return
	}
	f(e)
	for _, a := range e.Args {
		a.Walk(f)
	}
}

// Params returns the parameter indices used in e (including sub-selects).
func (e *Expr) Params() []int {
	seen := map[int]bool{}
	var visitSel func(s *Select)
	var visit func(x *Expr)
	visit = func(x *Expr) {
		if x == nil {
			return
		}
		if x.Kind == EParam {
			seen[x.Param] = true
		}
		for _, a := range x.Args {
			visit(a)
		}
		if x.Sub != nil {
			visitSel(x.Sub)
		}
	}
	visitSel = func(s *Select) {
		for _, c := range s.Cols {
			visit(c.Expr)
		}
		for _, t := range s.From {
			visit(t.On)
			if t.Sub != nil {
				visitSel(t.Sub)
			}
		}
		visit(s.Where)
		visit(s.Having)
		for _, o := range s.OrderBy {
			visit(o.Expr)
		}
		visit(s.Limit)
	}
	visit(e)
	var out []int
	for k := range seen {
		out = append(out, k)
	}
	sort.Ints(out)
	return out
}

// Shape gives a short position-independent description of a statement for use in keys.
func (s *Stmt) Shape() string {
	switch s.Kind {
	case SInsert:
		sh := "INSERT " + s.Table
		if s.Conflict != nil && !s.Conflict.DoNothing {
			cols := []string{}
			for _, a := range s.Conflict.Set {
				cols = append(cols, a.Col)
			}
			sort.Strings(cols)
			sh += " ON CONFLICT UPDATE{" + strings.Join(cols, ",") + "}"
		}
		return sh
	case SUpdate:
		cols := []string{}
		for _, a := range s.Set {
			cols = append(cols, a.Col)
		}
		sort.Strings(cols)
		return "UPDATE " + s.Table + " SET{" + strings.Join(cols, ",") + "}"
	case SDelete:
		return "DELETE " + s.Table
	case SSelect:
		tabs := s.Tables()
		cols := []string{}
		if s.Select != nil {
			for _, c := range s.Select.Cols {
				cols = append(cols, c.Expr.String())
			}
		}
		pre := ""
		if s.Explain {
			pre = "EXPLAIN "
		}
		return pre + "SELECT{" + strings.Join(cols, ",") + "} FROM " + strings.Join(tabs, ",")
	case SPragma:
		return "PRAGMA " + s.PragmaName
	case SCreateTable:
		return "CREATE TABLE " + s.Table
	case SCreateIndex:
		return "CREATE INDEX ON " + s.Table
	}
	return "OTHER"
}

// Tables returns the sorted set of base-table names referenced anywhere in the statement
// (CTE names excluded).
func (s *Stmt) Tables() []string {
	seen := map[string]bool{}
	cte := map[string]bool{}
	for _, c := range s.With {
		cte[strings.ToLower(c.Name)] = true
	}
	var visitSel func(x *Select)
	var visitExpr func(e *Expr)
	visitExpr = func(e *Expr) {
		if e == nil {
			return
		}
		if e.Sub != nil {
			visitSel(e.Sub)
		}
		for _, a := range e.Args {
			visitExpr(a)
		}
	}
	visitSel = func(x *Select) {
		if x == nil {
			return
		}
		for _, t := range x.From {
			if t.Sub != nil {
				visitSel(t.Sub)
			} else if !cte[strings.ToLower(t.Name)] {
				seen[strings.ToLower(t.Name)] = true
			}
			visitExpr(t.On)
		}
		for _, c := range x.Cols {
			visitExpr(c.Expr)
		}
		visitExpr(x.Where)
		visitExpr(x.Having)
		for _, c := range x.Compound {
			visitSel(c)
		}
	}
	if s.Table != "" {
		seen[strings.ToLower(s.Table)] = true
	}
	for _, c := range s.With {
		visitSel(c.Select)
	}
	visitSel(s.Select)
	visitSel(s.InsSel)
	visitExpr(s.Where)
	for _, a := range s.Set {
		visitExpr(a.Expr)
	}
	if s.Conflict != nil {
		visitExpr(s.Conflict.Where)
		for _, a := range s.Conflict.Set {
			visitExpr(a.Expr)
		}
	}
	for _, row := range s.Values {
		for _, v := range row {
			visitExpr(v)
		}
	}
	var out []string
	for k := range seen {
		out = append(out, k)
	}
	sort.Strings(out)
	return out
}

func (s *Stmt) String() string { return fmt.Sprintf("%s", s.Shape()) }
