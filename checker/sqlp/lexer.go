// Package sqlp is a small parser for the subset of SQLite's SQL dialect that rosmar
// embeds in its Go source (and plausible variations of it). It exists so that the
// checker can reason about statements structurally (target table, assigned columns,
// WHERE conjuncts, placeholders) instead of matching text.
package sqlp

import (
	"fmt"
	"strings"
	"unicode"
)

type TokKind int

const (
	TEOF TokKind = iota
	TIdent
	TKeyword
	TString
	TNumber
	TParam // ?, ?N, $x, :x, @x
	TOp
	TPunct // ( ) , ; .
)

type Token struct {
	Kind TokKind
	Text string // keywords upper-cased; identifiers as written (unquoted)
	Pos  int
}

func (t Token) String() string { return fmt.Sprintf("%q@%d", t.Text, t.Pos) }

var keywords = map[string]bool{}

func init() {
	for _, k := range strings.Fields(`SELECT FROM WHERE AND OR NOT NULL IS IN INSERT INTO VALUES ON CONFLICT DO
		UPDATE SET DELETE WITH AS ORDER BY ASC DESC LIMIT OFFSET JOIN INNER LEFT RIGHT OUTER CROSS FULL NATURAL USING
		GROUP HAVING DISTINCT ALL UNION EXCEPT INTERSECT CASE WHEN THEN ELSE END COLLATE EXISTS BETWEEN LIKE GLOB
		CREATE TABLE INDEX UNIQUE IF PRIMARY KEY AUTOINCREMENT REFERENCES CASCADE DEFAULT PRAGMA EXPLAIN QUERY PLAN
		NOTHING REPLACE ABORT FAIL IGNORE ROLLBACK TRUE FALSE CAST ISNULL NOTNULL RECURSIVE RETURNING CHECK CONSTRAINT FOREIGN
		TEMP TEMPORARY VIEW TRIGGER DROP ALTER BEGIN COMMIT MATCH REGEXP ESCAPE RESTRICT NO ACTION INDEXED`) {
		keywords[k] = true
	}
}

// Lex splits SQL text into tokens. Comments are dropped.
func Lex(src string) ([]Token, error) {
	var toks []Token
	i := 0
	n := len(src)
	for i < n {
		c := src[i]
		switch {
		case c == ' ' || c == '\t' || c == '\n' || c == '\r':
			i++
		case c == '-' && i+1 < n && src[i+1] == '-':
			for i < n && src[i] != '\n' {
				i++
			}
		case c == '/' && i+1 < n && src[i+1] == '*':
			j := strings.Index(src[i+2:], "*/")
			if j < 0 {
				return nil, fmt.Errorf("unterminated comment at %d", i)
			}
			i += j + 4
		case c == '\'':
			j := i + 1
			var sb strings.Builder
			for {
				if j >= n {
					return nil, fmt.Errorf("unterminated string at %d", i)
				}
				if src[j] == '\'' {
					if j+1 < n && src[j+1] == '\'' {
						sb.WriteByte('\'')
						j += 2
						continue
					}
					break
				}
				sb.WriteByte(src[j])
				j++
			}
			toks = append(toks, Token{TString, sb.String(), i})
			i = j + 1
		case c == '"' || c == '`' || c == '[':
			end := c
			if c == '[' {
				end = ']'
			}
			j := strings.IndexByte(src[i+1:], end)
			if j < 0 {
				return nil, fmt.Errorf("unterminated quoted identifier at %d", i)
			}
			toks = append(toks, Token{TIdent, src[i+1 : i+1+j], i})
			i += j + 2
		case c == '?':
			j := i + 1
			for j < n && src[j] >= '0' && src[j] <= '9' {
				j++
			}
			toks = append(toks, Token{TParam, src[i:j], i})
			i = j
		case (c == '$' || c == ':' || c == '@') && i+1 < n && isIdentStart(rune(src[i+1])):
			j := i + 1
			for j < n && isIdentPart(rune(src[j])) {
				j++
			}
			toks = append(toks, Token{TParam, src[i:j], i})
			i = j
		case c >= '0' && c <= '9' || (c == '.' && i+1 < n && src[i+1] >= '0' && src[i+1] <= '9'):
			j := i
			for j < n && (src[j] >= '0' && src[j] <= '9' || src[j] == '.' || src[j] == 'x' || src[j] == 'X' ||
				(src[j] >= 'a' && src[j] <= 'f') || (src[j] >= 'A' && src[j] <= 'F')) {
				j++
			}
			toks = append(toks, Token{TNumber, src[i:j], i})
			i = j
		case isIdentStart(rune(c)):
			j := i
			for j < n && isIdentPart(rune(src[j])) {
				j++
			}
			word := src[i:j]
			up := strings.ToUpper(word)
			if keywords[up] {
				toks = append(toks, Token{TKeyword, up, i})
			} else {
				toks = append(toks, Token{TIdent, word, i})
			}
			i = j
		case c == '(' || c == ')' || c == ',' || c == ';' || c == '.':
			toks = append(toks, Token{TPunct, string(c), i})
			i++
		default:
			// operators, longest match first
			ops := []string{"->>", "->", "||", "<=", ">=", "<>", "!=", "==", "<<", ">>", "=", "<", ">", "+", "-", "*", "/", "%", "&", "|", "~"}
			matched := false
			for _, op := range ops {
				if strings.HasPrefix(src[i:], op) {
					toks = append(toks, Token{TOp, op, i})
					i += len(op)
					matched = true
					break
				}
			}
			if !matched {
				return nil, fmt.Errorf("unexpected character %q at %d", c, i)
			}
		}
	}
	toks = append(toks, Token{TEOF, "", n})
	return toks, nil
}

func isIdentStart(r rune) bool { return r == '_' || unicode.IsLetter(r) }
func isIdentPart(r rune) bool  { return r == '_' || r == '$' || unicode.IsLetter(r) || unicode.IsDigit(r) }
