package sqlp

import (
	"fmt"
	"strconv"
	"strings"
)

type parser struct {
	toks       []Token
	pos        int
	src        string
	nextParam  int
	paramNames map[string]int
}

type parseError struct{ msg string }

func (p *parser) fail(format string, args ...any) {
	t := p.peek()
	panic(parseError{fmt.Sprintf("sql parse error near %s: %s", t, fmt.Sprintf(format, args...))})
}

func (p *parser) peek() Token { return p.toks[p.pos] }
func (p *parser) peekN(n int) Token {
	if p.pos+n < len(p.toks) {
		return p.toks[p.pos+n]
	}
	return p.toks[len(p.toks)-1]
}
func (p *parser) next() Token { t := p.toks[p.pos]; p.pos++; return t }

func (p *parser) isKw(words ...string) bool {
	t := p.peek()
	if t.Kind != TKeyword {
		return false
	}
	for _, w := range words {
		if t.Text == w {
			return true
		}
	}
	return false
}
func (p *parser) acceptKw(w string) bool {
	if p.isKw(w) {
		p.pos++
		return true
	}
	return false
}
func (p *parser) expectKw(w string) {
	if !p.acceptKw(w) {
		p.fail("expected %s", w)
	}
}
func (p *parser) isPunct(s string) bool { t := p.peek(); return t.Kind == TPunct && t.Text == s }
func (p *parser) acceptPunct(s string) bool {
	if p.isPunct(s) {
		p.pos++
		return true
	}
	return false
}
func (p *parser) expectPunct(s string) {
	if !p.acceptPunct(s) {
		p.fail("expected %q", s)
	}
}
func (p *parser) isOp(s string) bool { t := p.peek(); return t.Kind == TOp && t.Text == s }

// ident accepts an identifier; non-reserved use of keywords as names is tolerated for a
// few words that rosmar's schema uses as column names (key, value...). "key" is a keyword
// in SQLite's grammar only contextually.
func (p *parser) ident() string {
	t := p.peek()
	if t.Kind == TIdent {
		p.pos++
		return t.Text
	}
	if t.Kind == TKeyword {
		switch t.Text {
		case "KEY", "VIEW", "REPLACE", "QUERY", "PLAN", "ACTION", "NO", "FAIL", "IGNORE", "ABORT", "TEMP", "MATCH", "INDEXED":
			p.pos++
			return strings.ToLower(t.Text)
		}
	}
	p.fail("expected identifier")
	return ""
}

// ParseScript parses one or more ';'-separated statements.
func ParseScript(src string) (stmts []*Stmt, err error) {
	toks, err := Lex(src)
	if err != nil {
		return nil, err
	}
	defer func() {
		if r := recover(); r != nil {
			if pe, ok := r.(parseError); ok {
				err = fmt.Errorf("%s", pe.msg)
				return
			}
			panic(r)
		}
	}()
	p := &parser{toks: toks, src: src}
	for {
		for p.acceptPunct(";") {
		}
		if p.peek().Kind == TEOF {
			break
		}
		start := p.peek().Pos
		// parameters are numbered per statement
		p.nextParam = 0
		p.paramNames = map[string]int{}
		s := p.statement()
		end := p.peek().Pos
		s.Raw = strings.TrimSpace(src[start:end])
		s.NumParams = p.nextParam
		s.ParamNames = p.paramNames
		stmts = append(stmts, s)
		if !p.acceptPunct(";") && p.peek().Kind != TEOF {
			p.fail("unexpected token after statement")
		}
	}
	return stmts, nil
}

// Parse parses exactly one statement.
func Parse(src string) (*Stmt, error) {
	stmts, err := ParseScript(src)
	if err != nil {
		return nil, err
	}
	if len(stmts) != 1 {
		return nil, fmt.Errorf("expected one statement, got %d", len(stmts))
	}
	return stmts[0], nil
}

func (p *parser) statement() *Stmt {
	s := &Stmt{}
	if p.acceptKw("EXPLAIN") {
		s.Explain = true
		if p.acceptKw("QUERY") {
			p.expectKw("PLAN")
		}
	}
	if p.isKw("WITH") {
		p.next()
		p.acceptKw("RECURSIVE")
		for {
			name := p.ident()
			if p.acceptPunct("(") { // column list
				for !p.acceptPunct(")") {
					p.next()
				}
			}
			p.expectKw("AS")
			p.expectPunct("(")
			sel := p.selectStmt()
			p.expectPunct(")")
			s.With = append(s.With, CTE{Name: name, Select: sel})
			if !p.acceptPunct(",") {
				break
			}
		}
	}
	switch {
	case p.isKw("SELECT"):
		s.Kind = SSelect
		s.Select = p.selectStmt()
	case p.isKw("INSERT", "REPLACE"):
		p.insertStmt(s)
	case p.isKw("UPDATE"):
		p.updateStmt(s)
	case p.isKw("DELETE"):
		p.deleteStmt(s)
	case p.isKw("PRAGMA"):
		p.next()
		s.Kind = SPragma
		s.PragmaName = strings.ToLower(p.ident())
		if p.acceptPunct(".") {
			s.PragmaName = strings.ToLower(p.ident())
		}
		if p.isOp("=") {
			p.next()
			s.PragmaValue = p.expr(0)
		} else if p.acceptPunct("(") {
			s.PragmaValue = p.expr(0)
			p.expectPunct(")")
		}
	case p.isKw("CREATE"):
		p.createStmt(s)
	default:
		// Unknown statement kind: swallow tokens to the end of the statement.
		s.Kind = SOther
		depth := 0
		for p.peek().Kind != TEOF {
			if p.isPunct("(") {
				depth++
			} else if p.isPunct(")") {
				depth--
			} else if p.isPunct(";") && depth == 0 {
				break
			}
			p.next()
		}
	}
	return s
}

func (p *parser) selectStmt() *Select {
	sel := p.selectCore()
	for p.isKw("UNION", "EXCEPT", "INTERSECT") {
		p.next()
		p.acceptKw("ALL")
		sel.Compound = append(sel.Compound, p.selectCore())
	}
	if p.acceptKw("ORDER") {
		p.expectKw("BY")
		for {
			e := p.expr(0)
			ot := OrderTerm{Expr: e}
			if e.Kind == ECollate {
				ot.Collate = e.Name
			}
			if p.acceptKw("ASC") {
			} else if p.acceptKw("DESC") {
				ot.Desc = true
			}
			sel.OrderBy = append(sel.OrderBy, ot)
			if !p.acceptPunct(",") {
				break
			}
		}
	}
	if p.acceptKw("LIMIT") {
		sel.Limit = p.expr(0)
		if p.acceptKw("OFFSET") {
			sel.Offset = p.expr(0)
		} else if p.acceptPunct(",") {
			sel.Offset = sel.Limit
			sel.Limit = p.expr(0)
		}
	}
	return sel
}

func (p *parser) selectCore() *Select {
	p.expectKw("SELECT")
	sel := &Select{}
	if p.acceptKw("DISTINCT") {
		sel.Distinct = true
	} else {
		p.acceptKw("ALL")
	}
	for {
		var rc ResultCol
		if p.isOp("*") {
			p.next()
			rc.Expr = &Expr{Kind: EStar}
		} else {
			rc.Expr = p.expr(0)
			if p.acceptKw("AS") {
				rc.Alias = p.ident()
			} else if p.peek().Kind == TIdent {
				rc.Alias = p.ident()
			}
		}
		sel.Cols = append(sel.Cols, rc)
		if !p.acceptPunct(",") {
			break
		}
	}
	if p.acceptKw("FROM") {
		sel.From = p.fromClause()
	}
	if p.acceptKw("WHERE") {
		sel.Where = p.expr(0)
	}
	if p.acceptKw("GROUP") {
		p.expectKw("BY")
		for {
			sel.GroupBy = append(sel.GroupBy, p.expr(0))
			if !p.acceptPunct(",") {
				break
			}
		}
		if p.acceptKw("HAVING") {
			sel.Having = p.expr(0)
		}
	}
	return sel
}

func (p *parser) tableRef() TableRef {
	var tr TableRef
	if p.acceptPunct("(") {
		if p.isKw("SELECT", "WITH") {
			tr.Sub = p.selectStmt()
		} else {
			// parenthesised join: flatten by taking the first table (rare)
			inner := p.fromClause()
			if len(inner) > 0 {
				tr = inner[0]
			}
		}
		p.expectPunct(")")
	} else {
		tr.Name = p.ident()
		if p.acceptPunct(".") {
			tr.Name = p.ident()
		}
	}
	if p.acceptKw("AS") {
		tr.Alias = p.ident()
	} else if p.peek().Kind == TIdent {
		tr.Alias = p.ident()
	}
	if p.acceptKw("INDEXED") {
		p.expectKw("BY")
		p.ident()
	}
	return tr
}

func (p *parser) fromClause() []TableRef {
	var refs []TableRef
	refs = append(refs, p.tableRef())
	for {
		join := ""
		switch {
		case p.acceptPunct(","):
			join = ","
		case p.isKw("JOIN", "INNER", "LEFT", "RIGHT", "FULL", "CROSS", "NATURAL"):
			for p.isKw("INNER", "LEFT", "RIGHT", "FULL", "CROSS", "NATURAL", "OUTER") {
				w := p.next().Text
				if w != "OUTER" && w != "NATURAL" {
					join = w
				}
			}
			p.expectKw("JOIN")
			if join == "" {
				join = "INNER"
			}
		default:
			return refs
		}
		tr := p.tableRef()
		tr.Join = join
		if p.acceptKw("ON") {
			tr.On = p.expr(0)
		} else if p.acceptKw("USING") {
			p.expectPunct("(")
			for !p.acceptPunct(")") {
				p.next()
			}
		}
		refs = append(refs, tr)
	}
}

func (p *parser) insertStmt(s *Stmt) {
	s.Kind = SInsert
	if p.acceptKw("REPLACE") {
		s.OrAction = "REPLACE"
	} else {
		p.expectKw("INSERT")
		if p.acceptKw("OR") {
			s.OrAction = p.next().Text
		}
	}
	p.expectKw("INTO")
	s.Table = p.ident()
	if p.acceptPunct(".") {
		s.Table = p.ident()
	}
	if p.acceptKw("AS") {
		p.ident()
	}
	if p.acceptPunct("(") {
		for {
			s.Cols = append(s.Cols, p.ident())
			if !p.acceptPunct(",") {
				break
			}
		}
		p.expectPunct(")")
	}
	if p.acceptKw("VALUES") {
		for {
			p.expectPunct("(")
			var row []*Expr
			for {
				row = append(row, p.expr(0))
				if !p.acceptPunct(",") {
					break
				}
			}
			p.expectPunct(")")
			s.Values = append(s.Values, row)
			if !p.acceptPunct(",") {
				break
			}
		}
	} else if p.isKw("SELECT", "WITH") {
		s.InsSel = p.selectStmt()
	} else if p.acceptKw("DEFAULT") {
		p.expectKw("VALUES")
	} else {
		p.fail("expected VALUES or SELECT")
	}
	for p.acceptKw("ON") {
		p.expectKw("CONFLICT")
		c := &Conflict{}
		if p.acceptPunct("(") {
			for {
				c.Target = append(c.Target, p.ident())
				if !p.acceptPunct(",") {
					break
				}
			}
			p.expectPunct(")")
			if p.acceptKw("WHERE") {
				p.expr(0)
			}
		}
		p.expectKw("DO")
		if p.acceptKw("NOTHING") {
			c.DoNothing = true
		} else {
			p.expectKw("UPDATE")
			p.expectKw("SET")
			c.Set = p.assignments()
			if p.acceptKw("WHERE") {
				c.Where = p.expr(0)
			}
		}
		if s.Conflict == nil {
			s.Conflict = c
		}
	}
	p.returning()
}

func (p *parser) returning() {
	if p.acceptKw("RETURNING") {
		for {
			if p.isOp("*") {
				p.next()
			} else {
				p.expr(0)
				if p.acceptKw("AS") {
					p.ident()
				}
			}
			if !p.acceptPunct(",") {
				break
			}
		}
	}
}

func (p *parser) assignments() []Assign {
	var out []Assign
	for {
		if p.acceptPunct("(") {
			// (a,b) = (x,y) form
			var cols []string
			for {
				cols = append(cols, p.ident())
				if !p.acceptPunct(",") {
					break
				}
			}
			p.expectPunct(")")
			if !p.isOp("=") {
				p.fail("expected =")
			}
			p.next()
			p.expectPunct("(")
			i := 0
			for {
				e := p.expr(0)
				if i < len(cols) {
					out = append(out, Assign{Col: cols[i], Expr: e})
				}
				i++
				if !p.acceptPunct(",") {
					break
				}
			}
			p.expectPunct(")")
		} else {
			col := p.ident()
			if !p.isOp("=") && !p.isOp("==") {
				p.fail("expected = in SET")
			}
			p.next()
			out = append(out, Assign{Col: col, Expr: p.expr(0)})
		}
		if !p.acceptPunct(",") {
			break
		}
	}
	return out
}

func (p *parser) updateStmt(s *Stmt) {
	s.Kind = SUpdate
	p.expectKw("UPDATE")
	if p.acceptKw("OR") {
		s.OrAction = p.next().Text
	}
	s.Table = p.ident()
	if p.acceptPunct(".") {
		s.Table = p.ident()
	}
	p.expectKw("SET")
	s.Set = p.assignments()
	if p.acceptKw("FROM") {
		// UPDATE ... FROM: keep the tables reachable through Select for table collection
		s.Select = &Select{From: p.fromClause()}
	}
	if p.acceptKw("WHERE") {
		s.Where = p.expr(0)
	}
	p.returning()
}

func (p *parser) deleteStmt(s *Stmt) {
	s.Kind = SDelete
	p.expectKw("DELETE")
	p.expectKw("FROM")
	s.Table = p.ident()
	if p.acceptPunct(".") {
		s.Table = p.ident()
	}
	if p.acceptKw("WHERE") {
		s.Where = p.expr(0)
	}
	p.returning()
}

func (p *parser) createStmt(s *Stmt) {
	p.expectKw("CREATE")
	unique := p.acceptKw("UNIQUE")
	_ = unique
	if p.isKw("TEMP", "TEMPORARY") {
		p.next()
	}
	switch {
	case p.acceptKw("TABLE"):
		s.Kind = SCreateTable
		if p.acceptKw("IF") {
			p.expectKw("NOT")
			p.expectKw("EXISTS")
		}
		s.Table = p.ident()
		p.expectPunct("(")
		for {
			if p.isKw("UNIQUE", "PRIMARY", "FOREIGN", "CHECK", "CONSTRAINT") {
				p.tableConstraint(s)
			} else {
				s.Columns = append(s.Columns, p.columnDef())
			}
			if !p.acceptPunct(",") {
				break
			}
		}
		p.expectPunct(")")
		for p.peek().Kind == TIdent || p.isKw("WITHOUT") { // table options
			p.next()
		}
	case p.acceptKw("INDEX"):
		s.Kind = SCreateIndex
		if p.acceptKw("IF") {
			p.expectKw("NOT")
			p.expectKw("EXISTS")
		}
		s.IndexName = p.ident()
		p.expectKw("ON")
		s.Table = p.ident()
		p.expectPunct("(")
		for {
			e := p.expr(0)
			if p.isKw("ASC", "DESC") {
				p.next()
			}
			s.IndexCols = append(s.IndexCols, e)
			if !p.acceptPunct(",") {
				break
			}
		}
		p.expectPunct(")")
		if p.acceptKw("WHERE") {
			s.Where = p.expr(0)
		}
	default:
		s.Kind = SOther
		depth := 0
		for p.peek().Kind != TEOF {
			if p.isPunct("(") {
				depth++
			} else if p.isPunct(")") {
				depth--
			} else if p.isPunct(";") && depth == 0 {
				break
			}
			p.next()
		}
	}
}

func (p *parser) tableConstraint(s *Stmt) {
	if p.acceptKw("CONSTRAINT") {
		p.ident()
	}
	switch {
	case p.acceptKw("UNIQUE"):
		p.expectPunct("(")
		var cols []string
		for {
			cols = append(cols, p.ident())
			if !p.acceptPunct(",") {
				break
			}
		}
		p.expectPunct(")")
		s.Uniques = append(s.Uniques, cols)
	case p.acceptKw("PRIMARY"):
		p.expectKw("KEY")
		p.expectPunct("(")
		var cols []string
		for {
			cols = append(cols, p.ident())
			if !p.acceptPunct(",") {
				break
			}
		}
		p.expectPunct(")")
		s.Uniques = append(s.Uniques, cols)
	default:
		// FOREIGN KEY / CHECK: skip balanced
		depth := 0
		for p.peek().Kind != TEOF {
			if p.isPunct("(") {
				depth++
			} else if p.isPunct(")") {
				if depth == 0 {
					return
				}
				depth--
			} else if p.isPunct(",") && depth == 0 {
				return
			}
			p.next()
		}
	}
	if p.acceptKw("ON") {
		p.expectKw("CONFLICT")
		p.next()
	}
}

func (p *parser) columnDef() ColumnDef {
	cd := ColumnDef{Name: p.ident()}
	// type name: identifiers until a constraint keyword
	for p.peek().Kind == TIdent {
		cd.Type += p.next().Text
		if p.acceptPunct("(") {
			for !p.acceptPunct(")") {
				p.next()
			}
		}
	}
	for {
		switch {
		case p.acceptKw("CONSTRAINT"):
			p.ident()
		case p.acceptKw("NOT"):
			p.expectKw("NULL")
			cd.NotNull = true
		case p.acceptKw("NULL"):
		case p.acceptKw("PRIMARY"):
			p.expectKw("KEY")
			cd.PrimaryKey = true
			if p.isKw("ASC", "DESC") {
				p.next()
			}
			if p.acceptKw("AUTOINCREMENT") {
				cd.AutoInc = true
			}
		case p.acceptKw("UNIQUE"):
		case p.acceptKw("DEFAULT"):
			if p.acceptPunct("(") {
				cd.Default = p.expr(0)
				p.expectPunct(")")
			} else {
				cd.Default = p.primary()
			}
		case p.acceptKw("COLLATE"):
			cd.Collate = p.ident()
		case p.acceptKw("CHECK"):
			p.expectPunct("(")
			p.expr(0)
			p.expectPunct(")")
		case p.acceptKw("REFERENCES"):
			cd.RefTable = p.ident()
			if p.acceptPunct("(") {
				cd.RefCol = p.ident()
				p.expectPunct(")")
			}
			for p.acceptKw("ON") {
				what := p.next().Text // DELETE / UPDATE
				var action string
				switch {
				case p.acceptKw("CASCADE"):
					action = "CASCADE"
				case p.acceptKw("RESTRICT"):
					action = "RESTRICT"
				case p.acceptKw("SET"):
					action = "SET " + p.next().Text
				case p.acceptKw("NO"):
					p.expectKw("ACTION")
					action = "NO ACTION"
				default:
					p.fail("unknown foreign key action")
				}
				if what == "DELETE" {
					cd.OnDelete = action
				}
			}
		default:
			return cd
		}
	}
}

// ---------- expressions (Pratt) ----------

// binding powers, following https://sqlite.org/lang_expr.html (low to high)
const (
	bpOr = 1 + iota
	bpAnd
	bpNot
	bpEq
	bpCmp
	bpEscape
	bpBit
	bpAdd
	bpMul
	bpConcat
	bpCollate
	bpUnary
)

func (p *parser) expr(minBP int) *Expr {
	left := p.prefix()
	for {
		t := p.peek()
		switch {
		case t.Kind == TKeyword && t.Text == "OR" && bpOr >= minBP:
			p.next()
			left = &Expr{Kind: EBinary, Op: "OR", Args: []*Expr{left, p.expr(bpOr + 1)}}
		case t.Kind == TKeyword && t.Text == "AND" && bpAnd >= minBP:
			p.next()
			left = &Expr{Kind: EBinary, Op: "AND", Args: []*Expr{left, p.expr(bpAnd + 1)}}
		case t.Kind == TOp && (t.Text == "=" || t.Text == "==" || t.Text == "!=" || t.Text == "<>") && bpEq >= minBP:
			p.next()
			op := t.Text
			if op == "==" {
				op = "="
			}
			if op == "<>" {
				op = "!="
			}
			left = &Expr{Kind: EBinary, Op: op, Args: []*Expr{left, p.expr(bpEq + 1)}}
		case t.Kind == TKeyword && t.Text == "IS" && bpEq >= minBP:
			p.next()
			not := p.acceptKw("NOT")
			if p.acceptKw("NULL") {
				left = &Expr{Kind: EIsNull, Args: []*Expr{left}, Not: not}
			} else {
				p.acceptKw("DISTINCT") // IS [NOT] DISTINCT FROM
				if p.isKw("FROM") {
					p.next()
				}
				op := "IS"
				if not {
					op = "IS NOT"
				}
				left = &Expr{Kind: EBinary, Op: op, Args: []*Expr{left, p.expr(bpEq + 1)}}
			}
		case t.Kind == TKeyword && (t.Text == "ISNULL" || t.Text == "NOTNULL") && bpEq >= minBP:
			p.next()
			left = &Expr{Kind: EIsNull, Args: []*Expr{left}, Not: t.Text == "NOTNULL"}
		case t.Kind == TKeyword && t.Text == "NOT" && bpEq >= minBP:
			// postfix forms: NOT NULL, NOT IN, NOT LIKE, NOT BETWEEN
			nt := p.peekN(1)
			if nt.Kind == TKeyword && nt.Text == "NULL" {
				p.next()
				p.next()
				left = &Expr{Kind: EIsNull, Args: []*Expr{left}, Not: true}
			} else if nt.Kind == TKeyword && (nt.Text == "IN" || nt.Text == "LIKE" || nt.Text == "GLOB" || nt.Text == "BETWEEN" || nt.Text == "MATCH" || nt.Text == "REGEXP") {
				p.next()
				left = p.postfixWord(left, true)
			} else {
				return left
			}
		case t.Kind == TKeyword && (t.Text == "IN" || t.Text == "LIKE" || t.Text == "GLOB" || t.Text == "BETWEEN" || t.Text == "MATCH" || t.Text == "REGEXP") && bpEq >= minBP:
			left = p.postfixWord(left, false)
		case t.Kind == TOp && (t.Text == "<" || t.Text == "<=" || t.Text == ">" || t.Text == ">=") && bpCmp >= minBP:
			p.next()
			left = &Expr{Kind: EBinary, Op: t.Text, Args: []*Expr{left, p.expr(bpCmp + 1)}}
		case t.Kind == TOp && (t.Text == "<<" || t.Text == ">>" || t.Text == "&" || t.Text == "|") && bpBit >= minBP:
			p.next()
			left = &Expr{Kind: EBinary, Op: t.Text, Args: []*Expr{left, p.expr(bpBit + 1)}}
		case t.Kind == TOp && (t.Text == "+" || t.Text == "-") && bpAdd >= minBP:
			p.next()
			left = &Expr{Kind: EBinary, Op: t.Text, Args: []*Expr{left, p.expr(bpAdd + 1)}}
		case t.Kind == TOp && (t.Text == "*" || t.Text == "/" || t.Text == "%") && bpMul >= minBP:
			p.next()
			left = &Expr{Kind: EBinary, Op: t.Text, Args: []*Expr{left, p.expr(bpMul + 1)}}
		case t.Kind == TOp && (t.Text == "||" || t.Text == "->" || t.Text == "->>") && bpConcat >= minBP:
			p.next()
			left = &Expr{Kind: EBinary, Op: t.Text, Args: []*Expr{left, p.expr(bpConcat + 1)}}
		case t.Kind == TKeyword && t.Text == "COLLATE" && bpCollate >= minBP:
			p.next()
			left = &Expr{Kind: ECollate, Args: []*Expr{left}, Name: p.ident()}
		default:
			return left
		}
	}
}

func (p *parser) postfixWord(left *Expr, not bool) *Expr {
	t := p.next()
	switch t.Text {
	case "IN":
		e := &Expr{Kind: EIn, Args: []*Expr{left}, Not: not}
		if p.acceptPunct("(") {
			if p.isKw("SELECT", "WITH") {
				e.Sub = p.selectStmt()
			} else if !p.isPunct(")") {
				for {
					e.Args = append(e.Args, p.expr(0))
					if !p.acceptPunct(",") {
						break
					}
				}
			}
			p.expectPunct(")")
		} else {
			// IN table-name
			e.Sub = &Select{From: []TableRef{{Name: p.ident()}}, Cols: []ResultCol{{Expr: &Expr{Kind: EStar}}}}
		}
		return e
	case "BETWEEN":
		lo := p.expr(bpEq + 1)
		p.expectKw("AND")
		hi := p.expr(bpEq + 1)
		return &Expr{Kind: EBetween, Args: []*Expr{left, lo, hi}, Not: not}
	default: // LIKE GLOB MATCH REGEXP
		r := p.expr(bpEq + 1)
		if p.acceptKw("ESCAPE") {
			p.expr(bpEq + 1)
		}
		e := &Expr{Kind: EBinary, Op: t.Text, Args: []*Expr{left, r}}
		if not {
			return &Expr{Kind: EUnary, Op: "NOT", Args: []*Expr{e}}
		}
		return e
	}
}

func (p *parser) prefix() *Expr {
	t := p.peek()
	if t.Kind == TKeyword && t.Text == "NOT" {
		p.next()
		if p.isKw("EXISTS") {
			p.next()
			p.expectPunct("(")
			sub := p.selectStmt()
			p.expectPunct(")")
			return &Expr{Kind: EExists, Sub: sub, Not: true}
		}
		return &Expr{Kind: EUnary, Op: "NOT", Args: []*Expr{p.expr(bpNot)}}
	}
	if t.Kind == TOp && (t.Text == "-" || t.Text == "+" || t.Text == "~") {
		p.next()
		return &Expr{Kind: EUnary, Op: t.Text, Args: []*Expr{p.expr(bpUnary)}}
	}
	return p.primary()
}

func (p *parser) primary() *Expr {
	t := p.next()
	switch t.Kind {
	case TNumber:
		return &Expr{Kind: ELit, Text: t.Text}
	case TString:
		return &Expr{Kind: ELit, Text: "'" + t.Text + "'"}
	case TParam:
		return p.param(t)
	case TPunct:
		if t.Text == "(" {
			if p.isKw("SELECT", "WITH") {
				sub := p.selectStmt()
				p.expectPunct(")")
				return &Expr{Kind: ESubquery, Sub: sub}
			}
			e := p.expr(0)
			if p.isPunct(",") { // row value
				args := []*Expr{e}
				for p.acceptPunct(",") {
					args = append(args, p.expr(0))
				}
				p.expectPunct(")")
				return &Expr{Kind: EFunc, Name: "row", Args: args}
			}
			p.expectPunct(")")
			return e
		}
	case TKeyword:
		switch t.Text {
		case "NULL":
			return &Expr{Kind: ELit, Text: "NULL"}
		case "TRUE":
			return &Expr{Kind: ELit, Text: "TRUE"}
		case "FALSE":
			return &Expr{Kind: ELit, Text: "FALSE"}
		case "EXISTS":
			p.expectPunct("(")
			sub := p.selectStmt()
			p.expectPunct(")")
			return &Expr{Kind: EExists, Sub: sub}
		case "CAST":
			p.expectPunct("(")
			e := p.expr(0)
			p.expectKw("AS")
			typ := ""
			for !p.isPunct(")") {
				typ += p.next().Text
			}
			p.expectPunct(")")
			return &Expr{Kind: ECast, Args: []*Expr{e}, Name: typ}
		case "CASE":
			e := &Expr{Kind: ECase}
			if !p.isKw("WHEN") {
				e.Args = append(e.Args, p.expr(0))
			}
			for p.acceptKw("WHEN") {
				e.Args = append(e.Args, p.expr(0))
				p.expectKw("THEN")
				e.Args = append(e.Args, p.expr(0))
			}
			if p.acceptKw("ELSE") {
				e.Args = append(e.Args, p.expr(0))
			}
			p.expectKw("END")
			return e
		case "KEY", "VIEW", "REPLACE", "QUERY", "PLAN", "ACTION", "NO", "FAIL", "IGNORE", "ABORT", "TEMP", "MATCH", "GLOB", "LIKE", "INDEXED":
			// contextual keywords usable as names / function names
			p.pos--
			return p.nameExpr(strings.ToLower(p.next().Text))
		}
	case TIdent:
		return p.nameExpr(t.Text)
	}
	p.pos--
	p.fail("unexpected token in expression")
	return nil
}

func (p *parser) nameExpr(name string) *Expr {
	if p.acceptPunct("(") { // function call
		e := &Expr{Kind: EFunc, Name: name}
		p.acceptKw("DISTINCT")
		if p.isOp("*") {
			p.next()
			e.Args = append(e.Args, &Expr{Kind: EStar})
		} else if !p.isPunct(")") {
			for {
				e.Args = append(e.Args, p.expr(0))
				if !p.acceptPunct(",") {
					break
				}
			}
		}
		p.expectPunct(")")
		return e
	}
	if p.isPunct(".") {
		p.next()
		if p.isOp("*") {
			p.next()
			return &Expr{Kind: EStar, Table: name}
		}
		col := p.ident()
		if p.acceptPunct(".") { // schema.table.col
			return &Expr{Kind: EColumn, Table: col, Name: p.ident()}
		}
		return &Expr{Kind: EColumn, Table: name, Name: col}
	}
	return &Expr{Kind: EColumn, Name: name}
}

// param numbers placeholders by SQLite's rule: "?" takes the next free index, "?N" is
// explicit, a named parameter takes the next free index the first time it appears.
func (p *parser) param(t Token) *Expr {
	e := &Expr{Kind: EParam, Name: t.Text}
	switch {
	case t.Text == "?":
		p.nextParam++
		e.Param = p.nextParam
	case t.Text[0] == '?':
		n, _ := strconv.Atoi(t.Text[1:])
		e.Param = n
		if n > p.nextParam {
			p.nextParam = n
		}
	default:
		if idx, ok := p.paramNames[t.Text]; ok {
			e.Param = idx
		} else {
			p.nextParam++
			p.paramNames[t.Text] = p.nextParam
			e.Param = p.nextParam
		}
	}
	return e
}
