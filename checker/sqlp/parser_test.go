package sqlp

import (
	"os"
	"testing"
)

func TestRepoStatements(t *testing.T) {
	cases := []string{
		`SELECT 1 FROM documents
							WHERE collection=? AND key=? AND value NOT NULL`,
		`INSERT INTO documents (collection,key,value,cas,exp,isJSON, revSeqNo) VALUES (?1,?2,?3,?4,?5,?6,?7)
				ON CONFLICT(collection,key) DO
					UPDATE SET value=?3, xattrs=null, cas=?4, exp=?5, isJSON=?6, tombstone=0, revSeqNo=?7
					WHERE tombstone != 0`,
		`UPDATE documents SET value=value || ?1, cas=?2, exp=?6, isJSON=?7,revSeqNo=?8,
						tombstone=((value || ?1) IS NULL),
						xattrs=iif(tombstone != 0, null, xattrs)
				   WHERE collection=?3 AND key=?4 AND cas=?5`,
		`SELECT views.id, views.mapFn, views.reduceFn, views.lastCas
							FROM views JOIN designDocs ON views.designDoc=designDocs.id
		 					WHERE designDocs.collection=?1 AND designDocs.name=?2 AND views.name=?3`,
		`DELETE FROM mapped WHERE view=?1 AND doc IN
								(SELECT id FROM documents WHERE collection=?2 AND cas > ?3)`,
		`SELECT documents.key, mapped.key, mapped.value, null FROM mapped INNER JOIN documents ON mapped.doc=documents.id WHERE mapped.view=$VIEW AND mapped.key >= $MINKEY AND mapped.key < $MAXKEY ORDER BY mapped.key DESC, documents.key DESC LIMIT @__go1 `,
		`WITH _keyspace as (SELECT key as id, value as body, xattrs
							 FROM documents WHERE collection=@__go1 AND value NOT NULL) SELECT id FROM _keyspace WHERE body->>'x' = 3`,
		`EXPLAIN QUERY PLAN WITH _keyspace as (SELECT key as id FROM documents WHERE collection=@__go1) SELECT 1`,
		`SELECT designDocs.name, views.name, views.mapFn, views.reduceFn
						 FROM views RIGHT JOIN designDocs ON views.designDoc=designDocs.id
						 WHERE designDocs.collection=?1`,
		`PRAGMA user_version`,
		`SELECT min(exp) FROM documents WHERE exp > 0`,
		`DELETE FROM documents WHERE value IS NULL`,
		`SELECT uuid FROM bucket;`,
		`CREATE INDEX foo ON documents (id, value->>'x') WHERE value NOT NULL AND key LIKE 'a%'`,
	}
	for _, c := range cases {
		s, err := Parse(c)
		if err != nil {
			t.Errorf("%v\n%s", err, c)
			continue
		}
		t.Logf("%s | tables=%v params=%d where=%v", s.Shape(), s.Tables(), s.NumParams, len(Conjuncts(s.Where)))
	}
	src, err := os.ReadFile("/repo/schema.sql")
	if err != nil {
		t.Skip(err)
	}
	stmts, err := ParseScript(string(src))
	if err != nil {
		t.Fatal(err)
	}
	for _, s := range stmts {
		t.Logf("%s cols=%d", s.Shape(), len(s.Columns))
		for _, c := range s.Columns {
			if c.RefTable != "" || c.Collate != "" || c.AutoInc {
				t.Logf("   %s ref=%s(%s) ondelete=%s collate=%s autoinc=%v default=%v", c.Name, c.RefTable, c.RefCol, c.OnDelete, c.Collate, c.AutoInc, c.Default)
			}
		}
	}
}
